//! C07: the real ThreadPool on scheduler-owned primitives.

use super::*;

pub fn scenario(seed: u64, idx: u64) -> Scenario {
    let mut rng = rng_for(seed, "C07", "pool", idx);
    let mut sc = Scenario::base("C07", "pool", idx);
    sc.engine = Engine::Pool;
    sc.sched = pick_sched(&mut rng);
    // the property quantifies over sizes 1..8; now and then a pool as large as the shipped
    // default of 200 threads and around powers of two
    let size = if rng.chance(1, 60) { *rng.pick(&[16usize, 64, 200, 255, 256, 257]) } else { rng.range(1, 8) };
    let big = size > 8;
    let submitters = rng.range(1, 2);
    let total = if big { rng.range(0, size + 8) } else { rng.range(0, 4 * size) };
    let mut tasks: Vec<TaskKind> = vec![];
    // one of three workload shapes: plain, rendezvous of N, one slow (gated) task
    match rng.below(3) {
        0 => {}
        1 => {
            if total >= size {
                for _ in 0..size {
                    tasks.push(TaskKind::Rendezvous);
                }
            }
        }
        _ => {
            if size >= 2 && total >= 1 {
                tasks.push(TaskKind::Gated);
            }
        }
    }
    // a share of the runs has tasks that panic (the pool has to survive them)
    let panicky = rng.chance(1, 5);
    while tasks.len() < total {
        tasks.push(if panicky && rng.chance(1, 3) { TaskKind::Panicking } else if rng.chance(1, 3) { TaskKind::Long(rng.range(1, 4) as u32) } else { TaskKind::Instant });
    }
    rng.shuffle(&mut tasks);
    // submit and forget: the owner lets go of the pool right after the last hand-over (workers of
    // the pinned pool then poll a closed queue for ever, so only under the fair random scheduler)
    let drop_after_submit = rng.chance(1, 6) && sc.sched.kind == SchedKind::Random;
    sc.workers = size;
    sc.pool = Some(PoolSc { size, submitters, tasks, drop_after_submit });
    // simulated clock on half of the runs: time read by the pool jumps ahead by up to two minutes
    // now and then (a job "waited" that long in the queue)
    if rng.chance(1, 2) {
        sc.yields = vec!["clock".into()];
    }
    sc
}

/// one slow (gated) task and thousands of instant ones on a small pool: queue limits
pub fn flood(seed: u64, idx: u64) -> Scenario {
    let mut rng = rng_for(seed, "C07", "flood", idx);
    let mut sc = Scenario::base("C07", "flood", idx);
    sc.engine = Engine::Pool;
    sc.sched = pick_sched(&mut rng);
    let size = rng.range(2, 4);
    let n = *rng.pick(&[130usize, 260, 520, 1030, 1100, 2060, 4100, 8200, 10_100, 33_000, 66_000]);
    let mut tasks = vec![TaskKind::Gated];
    // half of the floods are floods of panicking tasks (hundreds of them on one pool)
    let panicking = rng.chance(1, 2);
    let n = if panicking { n.min(2060) } else { n };
    for k in 0..n {
        tasks.push(if panicking && k % 3 != 2 { TaskKind::Panicking } else { TaskKind::Instant });
    }
    sc.workers = size;
    sc.pool = Some(PoolSc { size, submitters: rng.range(1, 2), tasks, drop_after_submit: false });
    if rng.chance(1, 2) {
        sc.yields = vec!["clock".into()];
    }
    sc
}

/// thousands of rendezvous rounds on one long-lived pool: per-thread job counts reach five digits
/// while every job still has to meet its partners
pub fn rounds(seed: u64, idx: u64) -> Scenario {
    let mut rng = rng_for(seed, "C07", "rounds", idx);
    let mut sc = Scenario::base("C07", "rounds", idx);
    sc.engine = Engine::Pool;
    sc.sched = pick_sched(&mut rng);
    let size = rng.range(2, 3);
    let n = *rng.pick(&[300u32, 1100, 4200, 10_050, 10_050, 16_500]);
    let mut tasks = vec![];
    for r in 0..n {
        for _ in 0..size {
            tasks.push(TaskKind::Round(r));
        }
    }
    sc.workers = size;
    sc.pool = Some(PoolSc { size, submitters: 1, tasks, drop_after_submit: false });
    sc
}

/// pools as large as deployments configure them (the shipped default is 200 threads) on simulated
/// hosts with one to four processors: all N workers have to exist, so N tasks that wait for one
/// another (a rendezvous of N) must all be inside at the same time
pub fn large_pools(seed: u64, idx: u64) -> Scenario {
    let mut rng = rng_for(seed, "C07", "large_pools", idx);
    let mut sc = Scenario::base("C07", "large_pools", idx);
    sc.engine = Engine::Pool;
    sc.sched = pick_sched(&mut rng);
    let size = *rng.pick(&[33usize, 65, 100, 129, 193, 200, 200, 257, 300]);
    let mut tasks: Vec<TaskKind> = (0..size).map(|_| TaskKind::Rendezvous).collect();
    for _ in 0..rng.range(0, 8) {
        tasks.push(TaskKind::Instant);
    }
    if rng.chance(1, 2) {
        rng.shuffle(&mut tasks);
    }
    sc.workers = size;
    sc.pool = Some(PoolSc { size, submitters: rng.range(1, 2), tasks, drop_after_submit: false });
    sc
}

pub fn plan(tier: Tier, seed: u64) -> Vec<Campaign> {
    vec![Campaign {
        name: "large_pools",
        budget: match tier {
            Tier::Quick => Budget::Count(32),
            Tier::Thorough => Budget::Time(1),
        },
        exhaustive: false,
        gen: Box::new(move |i| large_pools(seed, i)),
    }, Campaign {
        name: "rounds",
        budget: match tier {
            Tier::Quick => Budget::Count(16),
            Tier::Thorough => Budget::Time(1),
        },
        exhaustive: false,
        gen: Box::new(move |i| rounds(seed, i)),
    }, Campaign {
        name: "flood",
        budget: match tier {
            Tier::Quick => Budget::Count(48),
            Tier::Thorough => Budget::Time(1),
        },
        exhaustive: false,
        gen: Box::new(move |i| flood(seed, i)),
    }, Campaign {
        name: "pool",
        budget: match tier {
            Tier::Quick => Budget::Count(20_000),
            Tier::Thorough => Budget::Time(6),
        },
        exhaustive: false,
        gen: Box::new(move |i| scenario(seed, i)),
    }]
}
