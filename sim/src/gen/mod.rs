//! Scenario generators: (property, tier, seed) -> campaigns; campaign x index -> scenario.

use crate::scenario::*;
use crate::util::{hash_str, mix, Rng};

pub mod c07;

pub enum Budget {
    /// exactly this many runs (indices 0..n)
    Count(u64),
    /// share of the time budget (relative weight); indices 0.. until the deadline
    Time(u32),
}

pub struct Campaign {
    pub name: &'static str,
    pub budget: Budget,
    /// the indices 0..n enumerate a finite space completely
    pub exhaustive: bool,
    pub gen: Box<dyn Fn(u64) -> Scenario + Send + Sync>,
}

#[derive(Clone, Copy, PartialEq, Eq, Debug)]
pub enum Tier {
    Quick,
    Thorough,
}

pub fn run_seed(seed: u64, prop: &str, campaign: &str, idx: u64) -> u64 {
    mix(mix(mix(seed, hash_str(prop)), hash_str(campaign)), idx)
}

pub fn rng_for(seed: u64, prop: &str, campaign: &str, idx: u64) -> Rng {
    Rng::new(run_seed(seed, prop, campaign, idx))
}

/// scheduler choice shared by all generators: mostly random, a share of PCT with depth 1..3
pub fn pick_sched(rng: &mut Rng) -> Sched {
    let seed = rng.next();
    match rng.below(10) {
        0..=5 => Sched { kind: SchedKind::Random, seed, depth: 0 },
        6 => Sched { kind: SchedKind::Pct, seed, depth: 1 },
        7 => Sched { kind: SchedKind::Pct, seed, depth: 2 },
        8 => Sched { kind: SchedKind::Pct, seed, depth: 3 },
        _ => Sched { kind: SchedKind::RoundRobin, seed: 0, depth: 0 },
    }
}

pub fn plan(prop: &str, tier: Tier, seed: u64) -> Option<Vec<Campaign>> {
    match prop {
        "C07" => Some(c07::plan(tier, seed)),
        _ => None,
    }
}
