//! Scenario generators: (property, tier, seed) -> campaigns; campaign x index -> scenario.

use crate::scenario::*;
use crate::util::{hash_str, mix, Rng};

pub mod c01;
pub mod c02;
pub mod c04;
pub mod c05;
pub mod c06;
pub mod c07;
pub mod c09;
pub mod common;
pub mod matrix;
pub mod real;

pub enum Budget {
    /// exactly this many runs (indices 0..n)
    Count(u64),
    /// share of the time budget (relative weight); indices 0.. until the deadline
    Time(u32),
}

pub struct Campaign {
    pub name: &'static str,
    pub budget: Budget,
    /// the indices 0..n enumerate a finite space completely
    pub exhaustive: bool,
    pub gen: Box<dyn Fn(u64) -> Scenario + Send + Sync>,
}

#[derive(Clone, Copy, PartialEq, Eq, Debug)]
pub enum Tier {
    Quick,
    Thorough,
}

pub fn run_seed(seed: u64, prop: &str, campaign: &str, idx: u64) -> u64 {
    mix(mix(mix(seed, hash_str(prop)), hash_str(campaign)), idx)
}

pub fn rng_for(seed: u64, prop: &str, campaign: &str, idx: u64) -> Rng {
    Rng::new(run_seed(seed, prop, campaign, idx))
}

/// scheduler choice shared by all generators: mostly random, a share of PCT with depth 1..3
pub fn pick_sched(rng: &mut Rng) -> Sched {
    let seed = rng.next();
    match rng.below(10) {
        0..=5 => Sched { kind: SchedKind::Random, seed, depth: 0 },
        6 => Sched { kind: SchedKind::Pct, seed, depth: 1 },
        7 => Sched { kind: SchedKind::Pct, seed, depth: 2 },
        8 => Sched { kind: SchedKind::Pct, seed, depth: 3 },
        _ => Sched { kind: SchedKind::RoundRobin, seed: 0, depth: 0 },
    }
}

pub fn plan(prop: &str, tier: Tier, seed: u64) -> Option<Vec<Campaign>> {
    let mut v = plan_inner(prop, tier, seed)?;
    // the exhaustive header x resource x method matrix (gen/matrix.rs)
    for p in ["C02", "C04", "C05", "C09", "C10", "C13"] {
        if p == prop {
            v.push(matrix::campaign(p, seed));
        }
    }
    Some(v)
}

fn plan_inner(prop: &str, tier: Tier, seed: u64) -> Option<Vec<Campaign>> {
    match prop {
        "C01" => Some(c01::plan(tier, seed)),
        "C02" => Some(c02::plan_c02(tier, seed)),
        "C03" => Some(c02::plan_c03(tier, seed)),
        "C04" => Some(c04::plan(tier, seed)),
        "C05" => Some(c05::plan(tier, seed)),
        "C06" => Some(c06::plan(tier, seed)),
        "C07" => Some(c07::plan(tier, seed)),
        "C08" => Some(c09::plan("C08", tier, seed)),
        "C09" => Some(c09::plan("C09", tier, seed)),
        "C10" => Some(c04::plan_c10(tier, seed)),
        "C11" => Some(c09::plan("C11", tier, seed)),
        "C13" => Some(c09::plan("C13", tier, seed)),
        _ => None,
    }
}
