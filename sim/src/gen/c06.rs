//! C06: histories of connections followed by a capacity probe. Quick tier = complete
//! enumeration of (fault site x request class x pool size); thorough adds random histories.

use super::common::*;
use super::*;

/// every fault site of a connection's life-cycle
pub fn sites() -> Vec<(&'static str, Box<dyn Fn(&mut Conn)>)> {
    let mut v: Vec<(&'static str, Box<dyn Fn(&mut Conn)>)> = vec![];
    v.push(("clean", Box::new(|_c| {})));
    v.push(("accept_econnaborted", Box::new(|c| c.faults.accept_err = Some(IoKind::ConnectionAborted))));
    v.push(("accept_emfile", Box::new(|c| c.faults.accept_err = Some(IoKind::TooManyFiles))));
    v.push(("local_addr_err", Box::new(|c| c.faults.local_addr_err = true)));
    v.push(("peer_addr_err", Box::new(|c| c.faults.peer_addr_err = true)));
    v.push(("dup_emfile", Box::new(|c| c.faults.dup_err = true)));
    for k in [IoKind::ConnectionReset, IoKind::TimedOut, IoKind::Interrupted, IoKind::WouldBlock] {
        v.push(("read_err", Box::new(move |c| c.faults.read_errs = vec![(0, k)])));
    }
    for at in [0usize, 1, 100, 400, 100_000] {
        for k in [IoKind::BrokenPipe, IoKind::ConnectionReset, IoKind::Interrupted, IoKind::WouldBlock] {
            v.push(("write_err", Box::new(move |c| c.faults.write_fault = Some(WriteFault { at, kind: k, sticky: k != IoKind::Interrupted }))));
        }
    }
    v.push(("write_zero_at_0", Box::new(|c| c.faults.write_zero_at = Some(0))));
    v.push(("write_zero_mid", Box::new(|c| c.faults.write_zero_at = Some(150))));
    v.push(("flush_epipe", Box::new(|c| c.faults.flush_err = Some(IoKind::BrokenPipe))));
    v.push(("flush_eio", Box::new(|c| c.faults.flush_err = Some(IoKind::Other))));
    v.push(("short_write_7", Box::new(|c| c.faults.cuts = Cuts::Every(7))));
    v.push(("short_write_1", Box::new(|c| c.faults.cuts = Cuts::Every(1))));
    for reset in [false, true] {
        v.push(("client_gone_before_send", Box::new(move |c| c.client = ClientMode::Gone { segments_sent: Some(0), reset, write: GoneWrite::Epipe })));
        for w in [GoneWrite::Accept, GoneWrite::Epipe, GoneWrite::Reset] {
            v.push(("client_gone_after_send", Box::new(move |c| c.client = ClientMode::Gone { segments_sent: None, reset, write: w })));
        }
    }
    v.push(("half_sent_then_half_close", Box::new(|c| {
        let n = c.request.0.len();
        if n >= 2 {
            c.delivery = vec![Seg { len: n / 2, yields_before: 0 }, Seg { len: n - n / 2, yields_before: 0 }];
            c.client = ClientMode::HalfClose { segments_sent: Some(1) };
        }
    })));
    v.push(("half_sent_then_gone", Box::new(|c| {
        let n = c.request.0.len();
        if n >= 2 {
            c.delivery = vec![Seg { len: n / 2, yields_before: 0 }, Seg { len: n - n / 2, yields_before: 0 }];
            c.client = ClientMode::Gone { segments_sent: Some(1), reset: true, write: GoneWrite::Reset };
        }
    })));
    v.push(("eof_without_data", Box::new(|c| c.client = ClientMode::HalfClose { segments_sent: Some(0) })));
    v.push(("stall_then_close", Box::new(|c| c.client = ClientMode::Stall { then_send: false })));
    v.push(("stall_then_send", Box::new(|c| c.client = ClientMode::Stall { then_send: true })));
    v.push(("handler_err", Box::new(|c| c.faults.handler_err = true)));
    v.push(("handler_panic_literal", Box::new(|c| c.faults.handler_panic = Some(false))));
    v.push(("handler_panic_formatted", Box::new(|c| c.faults.handler_panic = Some(true))));
    v.push(("segmented", Box::new(|c| {
        let n = c.request.0.len();
        if n >= 3 {
            c.delivery = vec![Seg { len: 3, yields_before: 0 }, Seg { len: n - 3, yields_before: 3 }];
        }
    })));
    v
}

/// request classes: valid, error answers, and every request known to provoke a failure
pub fn request_classes() -> Vec<(&'static str, Vec<u8>)> {
    let mut flood = b"GET /file.txt HTTP/1.1\r\n".to_vec();
    for _ in 0..3000 {
        flood.extend_from_slice(b"a:\r\n");
    }
    flood.extend_from_slice(b"\r\n");
    vec![
        ("valid_200", get("/file.txt")),
        ("valid_404", get("/missing.txt")),
        ("range_416", req("GET", "/file.txt", &[("Range", "bytes=900-1000")], b"")),
        ("parse_error", b"BREW / HTTP/1.1\r\n\r\n".to_vec()),
        ("target_no_slash", b"GET x HTTP/1.1\r\nHost: h\r\n\r\n".to_vec()),
        ("content_length_junk", req("POST", "/file.txt", &[("Content-Length", "a")], b"hello")),
        ("urlencoded_non_utf8", req("POST", FORM_URLENC, &[("Content-Type", "application/x-www-form-urlencoded"), ("Content-Length", "4")], b"a=\xff\xfe")),
        ("suffix_range_longer_than_file", req("GET", "/file.txt", &[("Range", "bytes=-99999")], b"")),
        ("absolute_form_target", b"GET http://evil.example/file.txt HTTP/1.1\r\nHost: h\r\n\r\n".to_vec()),
        ("multipart_odd", req("POST", FORM_MULTIPART, &[("Content-Type", "multipart/form-data; boundary=B"), ("Content-Length", "30")], b"--B\r\nX: 1\r\n\r\nv\r\n--B--\r\n")),
        ("head", req("HEAD", "/file.txt", &[], b"")),
        ("conditional_get", req("GET", "/file.txt", &[("If-Modified-Since", "Sat, 29 Oct 1994 19:43:31 GMT"), ("If-None-Match", "\"abc\"")], b"")),
        ("options", req("OPTIONS", "/file.txt", &[("Origin", "http://a.example")], b"")),
        ("header_flood", flood),
        ("non_utf8_head", b"GET /\xff\xfe HTTP/1.1\r\n\r\n".to_vec()),
    ]
}

const POOL_SIZES: [usize; 3] = [1, 2, 4];

pub fn enumeration_size() -> u64 {
    (sites().len() * request_classes().len() * POOL_SIZES.len()) as u64
}

pub fn enumerated(seed: u64, idx: u64) -> Scenario {
    let mut rng = rng_for(seed, "C06", "single_fault_enumeration", idx);
    let mut sc = Scenario::base("C06", "single_fault_enumeration", idx);
    let s = sites();
    let rc = request_classes();
    let i = idx as usize;
    let n = POOL_SIZES[i % POOL_SIZES.len()];
    let (rname, rbytes) = rc[(i / POOL_SIZES.len()) % rc.len()].clone();
    let (sname, apply) = &s[(i / POOL_SIZES.len() / rc.len()) % s.len()];
    sc.engine = Engine::System;
    sc.sched = Sched { kind: SchedKind::Random, seed: rng.next(), depth: 0 };
    sc.workers = n;
    sc.request_size = 16000;
    sc.tree = small_tree(0xC06);
    // the same connection N+1 times, one after the other: longer than the worker count
    for k in 0..n + 1 {
        let mut c = Conn::simple(k, k as u32, rbytes.clone(), "");
        apply(&mut c);
        c.class = format!("{}+{}", rname, sname);
        sc.conns.push(c);
    }
    sc.probe = Probe::Capacity { request: probe_request().into() };
    sc
}

pub fn random_history(seed: u64, idx: u64, max_len: usize) -> Scenario {
    let mut rng = rng_for(seed, "C06", "random_histories", idx);
    let mut sc = Scenario::base("C06", "random_histories", idx);
    sc.engine = Engine::System;
    sc.sched = pick_sched(&mut rng);
    sc.workers = rng.range(1, 8);
    sc.request_size = pick_buffer(&mut rng).max(4096);
    sc.yields = pick_yields(&mut rng);
    sc.tree = small_tree(0xC06);
    // a third of the histories: files with modification times at the corners of the calendar
    if rng.chance(1, 3) {
        sc.tree.mtime_mode = rng.range(8, 49) as u8;
    }
    let len = match rng.below(4) {
        0 => rng.range(1, 4),
        1 => rng.range(sc.workers, sc.workers + 3),
        _ => rng.range(1, max_len),
    };
    let s = sites();
    let rc = request_classes();
    let enabled: Vec<usize> = (0..s.len()).filter(|_| rng.chance(1, 3)).collect();
    let mut phase = 0u32;
    for k in 0..len {
        let (rname, rbytes) = if rng.chance(1, 2) {
            let (n, b) = rc[rng.below(rc.len())].clone();
            (n, b)
        } else {
            mutated_request(&mut rng, "/file.txt", sc.request_size as usize)
        };
        let mut c = Conn::simple(k, phase, if rbytes.is_empty() { b"G".to_vec() } else { rbytes }, "");
        let mut sname = "clean";
        if !enabled.is_empty() && rng.chance(3, 10) {
            let (n, apply) = &s[*rng.pick(&enabled)];
            apply(&mut c);
            sname = n;
        }
        c.class = format!("{}+{}", rname, sname);
        sc.conns.push(c);
        // overlap arbitrarily: most connections share a phase with their neighbours
        if rng.chance(1, 3) {
            phase += 1;
        }
    }
    sc.probe = Probe::Capacity { request: probe_request().into() };
    sc
}

/// one faulty connection kind repeated K times in a row (K up to 64, far beyond the worker
/// count), then the probe: counters and thresholds that only trip after a run of failures
pub fn repeated_fault(seed: u64, idx: u64) -> Scenario {
    let mut rng = rng_for(seed, "C06", "repeated_fault", idx);
    let mut sc = Scenario::base("C06", "repeated_fault", idx);
    sc.engine = Engine::System;
    sc.sched = pick_sched(&mut rng);
    sc.workers = rng.range(1, 4);
    sc.request_size = 16000;
    sc.tree = small_tree(0xC06);
    let s = sites();
    let rc = request_classes();
    let (sname, apply) = &s[rng.below(s.len())];
    let (rname, rbytes) = rc[rng.below(rc.len())].clone();
    let mut k = *rng.pick(&[1usize, 2, 3, 5, 7, 8, 9, 12, 16, 17, 24, 33, 64]);
    if sname.starts_with("short_write") {
        // thousands of one-byte writes per connection: keep the run short
        k = k.min(9);
    }
    let sequential = rng.chance(1, 2);
    for j in 0..k {
        let mut c = Conn::simple(j, if sequential { j as u32 } else { (j / 4) as u32 }, rbytes.clone(), "");
        apply(&mut c);
        c.class = format!("{}+{}", rname, sname);
        sc.conns.push(c);
    }
    sc.probe = Probe::Capacity { request: probe_request().into() };
    sc
}

/// a burst of far more simultaneous connections than workers (some of them silent), then the probe
pub fn burst(seed: u64, idx: u64) -> Scenario {
    let mut rng = rng_for(seed, "C06", "burst", idx);
    let mut sc = Scenario::base("C06", "burst", idx);
    sc.engine = Engine::System;
    sc.sched = Sched { kind: SchedKind::Random, seed: rng.next(), depth: 0 };
    sc.workers = rng.range(1, 4);
    sc.request_size = 16000;
    sc.tree = small_tree(0xC06);
    let n = *rng.pick(&[35usize, 70, 130, 260, 520, 1100]);
    let silent = rng.chance(1, 2);
    for i in 0..n {
        let mut c = Conn::simple(i, 0, get("/file.txt"), "burst");
        if silent && i % 3 == 0 {
            c.client = ClientMode::Gone { segments_sent: Some(0), reset: i % 2 == 0, write: GoneWrite::Epipe };
            c.class = "burst_silent".into();
        }
        sc.conns.push(c);
    }
    sc.probe = Probe::Capacity { request: probe_request().into() };
    sc
}

/// the disk fails once during a history of ordinary static-file requests: a file that ends before its
/// size says (sticky: truncated for good), an I/O error on read, an error at open / stat / seek
pub fn disk_faults(seed: u64, idx: u64) -> Scenario {
    disk_faults_for("C06", seed, idx)
}

pub fn disk_faults_for(prop: &'static str, seed: u64, idx: u64) -> Scenario {
    let mut rng = rng_for(seed, prop, "disk_faults", idx);
    let mut sc = Scenario::base(prop, "disk_faults", idx);
    sc.engine = Engine::System;
    sc.sched = pick_sched(&mut rng);
    sc.workers = rng.range(1, 3);
    sc.request_size = 16000;
    sc.yields = vec!["file_io".into()];
    sc.tree = small_tree(0xC06);
    sc.tree.entries.push(Entry { path: "root/ln.txt".into(), kind: EntryKind::Symlink("file.txt".into()) });
    let reqs: Vec<(&str, Vec<u8>)> = vec![
        ("get_file", get("/file.txt")),
        ("get_big", get("/big.bin")),
        ("get_html_fallback", get("/page")),
        ("get_dir_index", get("/d/")),
        ("get_link", get("/ln.txt")),
        ("get_empty", get("/empty.txt")),
        ("get_missing", get("/missing.txt")),
        ("get_root_builtin", get("/")),
        ("range_single", req("GET", "/big.bin", &[("Range", "bytes=100-9999")], b"")),
        ("range_multi", req("GET", "/big.bin", &[("Range", "bytes=0-3, 8-")], b"")),
        ("range_multi3", req("GET", "/file.txt", &[("Range", "bytes=0-9,20-29,-5")], b"")),
        ("range_suffix", req("GET", "/file.txt", &[("Range", "bytes=-10")], b"")),
        ("head", req("HEAD", "/big.bin", &[], b"")),
        ("options", req("OPTIONS", "/file.txt", &[("Origin", "http://a.example")], b"")),
        ("form_get", get("/form-get-method?a=1")),
    ];
    let n = rng.range(2, 8);
    let sequential = rng.chance(1, 2);
    for k in 0..n {
        let (name, bytes) = reqs[rng.below(reqs.len())].clone();
        sc.conns.push(Conn::simple(k, if sequential { k as u32 } else { (k / 3) as u32 }, bytes, name));
    }
    let op = *rng.pick(&["read", "read", "read", "open", "stat", "seek"]);
    let kind = match op {
        "read" => *rng.pick(&["eof", "eof", "EIO", "EINTR", "EISDIR", "ENOMEM"]),
        "open" => *rng.pick(&["EACCES", "EMFILE", "ENOENT", "ENOMEM", "EINTR", "EIO"]),
        "stat" => *rng.pick(&["EACCES", "ENOENT", "EIO", "ENOMEM"]),
        _ => *rng.pick(&["EIO", "eof"]),
    };
    // (an interrupted call is transient by nature: never sticky)
    let sticky = (kind == "eof" || kind == "EIO") && rng.chance(1, 2);
    sc.disk_fault = Some(DiskFault { op: op.into(), nth: rng.range(1, 40) as u32, kind: kind.into(), sticky });
    sc.probe = if prop == "C06" { Probe::Capacity { request: probe_request().into() } } else { Probe::FollowUp { request: probe_request().into() } };
    sc
}

/// more than ten thousand connections on one node: counters that trip at a round number
pub fn ten_thousand(seed: u64, idx: u64) -> Scenario {
    let mut rng = rng_for(seed, "C06", "ten_thousand_connections", idx);
    let mut sc = Scenario::base("C06", "ten_thousand_connections", idx);
    sc.engine = Engine::System;
    sc.sched = Sched { kind: SchedKind::Random, seed: rng.next(), depth: 0 };
    sc.workers = rng.range(1, 3);
    sc.request_size = 4096;
    sc.tree = small_tree(0xC06);
    let n = *rng.pick(&[10_050usize, 10_300, 12_000]);
    let kinds: [Vec<u8>; 4] = [get("/one.txt"), b"BREW / HTTP/1.1\r\n\r\n".to_vec(), get("/missing.txt"), req("HEAD", "/one.txt", &[], b"")];
    for i in 0..n {
        sc.conns.push(Conn::simple(i, (i / 16) as u32, kinds[i % 4].clone(), "many"));
    }
    sc.probe = Probe::Capacity { request: probe_request().into() };
    sc
}

/// many downloads of a large file that the client abandons half way (or that fail at the transport),
/// then the same large file is asked for once more: budgets and counters that only leak on failures
pub fn large_aborted(seed: u64, idx: u64) -> Scenario {
    let mut rng = rng_for(seed, "C06", "large_aborted_downloads", idx);
    let mut sc = Scenario::base("C06", "large_aborted_downloads", idx);
    sc.engine = Engine::System;
    sc.sched = pick_sched(&mut rng);
    sc.workers = rng.range(1, 3);
    sc.request_size = 16000;
    let (len, k): (u64, usize) = match rng.below(4) {
        0 => ((1 << 20) + 1, rng.range(20, 300)),
        1 | 2 => ((8 << 20) + 1, rng.range(10, 70)),
        _ => ((64 << 20) + 3, rng.range(2, 9)),
    };
    sc.tree = TreeSpec { root: "root".into(), entries: vec![
        Entry { path: "root/large.bin".into(), kind: EntryKind::File(Content::Sparse { len, seed: rng.next() }) },
        Entry { path: "root/probe.txt".into(), kind: EntryKind::File(Content::Literal("probe\n".into())) },
    ], mtime_mode: 0, meta_mode: 0 };
    let s = sites();
    let failing: Vec<usize> = (0..s.len()).filter(|&i| ["write_err", "write_zero_at_0", "write_zero_mid", "flush_epipe", "flush_eio", "client_gone_after_send", "handler_err"].contains(&s[i].0)).collect();
    for j in 0..k {
        let bytes = match rng.below(5) {
            0 => req("GET", "/large.bin", &[("Range", "bytes=0-")], b""),
            1 => req("GET", "/large.bin", &[("Range", &format!("bytes=0-{}, 999999999999-", len - 1))], b""),
            _ => get("/large.bin"),
        };
        let mut c = Conn::simple(j, (j / rng.range(1, 3)) as u32, bytes, "");
        let (n, apply) = &s[*rng.pick(&failing)];
        apply(&mut c);
        c.class = format!("large+{}", n);
        sc.conns.push(c);
    }
    sc.probe = Probe::FollowUp { request: get("/large.bin").into() };
    sc
}

pub fn plan(tier: Tier, seed: u64) -> Vec<Campaign> {
    vec![
        Campaign { name: "disk_faults", budget: match tier { Tier::Quick => Budget::Count(3000), Tier::Thorough => Budget::Time(1) }, exhaustive: false, gen: Box::new(move |i| disk_faults(seed, i)) },
        Campaign { name: "ten_thousand_connections", budget: Budget::Count(match tier { Tier::Quick => 2, Tier::Thorough => 12 }), exhaustive: false, gen: Box::new(move |i| ten_thousand(seed, i)) },
        Campaign { name: "large_aborted_downloads", budget: Budget::Count(match tier { Tier::Quick => 24, Tier::Thorough => 200 }), exhaustive: false, gen: Box::new(move |i| large_aborted(seed, i)) },
        Campaign { name: "single_fault_enumeration", budget: Budget::Count(enumeration_size()), exhaustive: true, gen: Box::new(move |i| enumerated(seed, i)) },
        Campaign { name: "burst", budget: match tier { Tier::Quick => Budget::Count(24), Tier::Thorough => Budget::Time(1) }, exhaustive: false, gen: Box::new(move |i| burst(seed, i)) },
        Campaign { name: "repeated_fault", budget: match tier { Tier::Quick => Budget::Count(1500), Tier::Thorough => Budget::Time(1) }, exhaustive: false, gen: Box::new(move |i| repeated_fault(seed, i)) },
        match tier {
            Tier::Quick => Campaign { name: "random_histories", budget: Budget::Count(2000), exhaustive: false, gen: Box::new(move |i| random_history(seed, i, 40)) },
            Tier::Thorough => Campaign { name: "random_histories", budget: Budget::Time(1), exhaustive: false, gen: Box::new(move |i| random_history(seed, i, 300)) },
        },
    ]
}
