//! "Realistic deployment" material for the generators: file contents that begin with well-known
//! signatures, names that tools and conventions give to files (compressed siblings, partial
//! downloads, backups, dot files, `.well-known/`, nested configuration files), header values with
//! the syntax errors real clients produce, long and multi-byte values at every length, conditional
//! request headers. None of it changes what the server has to answer according to the properties;
//! all of it is what a feature added later would start to interpret.

use crate::scenario::*;
use crate::util::Rng;

/// (kind, leading bytes)
pub const MAGIC: &[(&str, &[u8])] = &[
    ("png", b"\x89PNG\r\n\x1a\n\0\0\0\rIHDR\0\0\0\x01\0\0\0\x01\x08\x06"),
    ("jpeg", b"\xff\xd8\xff\xe0\0\x10JFIF\0\x01\x01"),
    ("gif89", b"GIF89a\x01\0\x01\0\x80\0\0"),
    ("gif87", b"GIF87a\x01\0\x01\0"),
    ("webp", b"RIFF\x24\0\0\0WEBPVP8 "),
    ("pdf", b"%PDF-1.7\n%\xe2\xe3\xcf\xd3\n"),
    ("gzip", b"\x1f\x8b\x08\0\0\0\0\0\0\x03"),
    ("zip", b"PK\x03\x04\x14\0\0\0\x08\0"),
    ("bz2", b"BZh91AY&SY"),
    ("zstd", b"\x28\xb5\x2f\xfd\x04\x58"),
    ("xz", b"\xfd7zXZ\0\0\x04"),
    ("elf", b"\x7fELF\x02\x01\x01\0"),
    ("wasm", b"\0asm\x01\0\0\0"),
    ("mp4", b"\0\0\0\x18ftypmp42\0\0\0\0"),
    ("mp3", b"ID3\x03\0\0\0\0\0\x0f"),
    ("ogg", b"OggS\0\x02"),
    ("ico", b"\0\0\x01\0\x01\0\x10\x10"),
    ("woff2", b"wOF2\0\x01\0\0"),
    ("shebang", b"#!/bin/sh\nexit 0\n"),
    ("xml", b"<?xml version=\"1.0\" encoding=\"UTF-8\"?>\n<a/>"),
    ("html", b"<!DOCTYPE html>\n<html><body>x</body></html>"),
    ("svg", b"<svg xmlns=\"http://www.w3.org/2000/svg\"/>"),
    ("json", b"{\"a\": [1, 2, 3]}"),
    ("bom8", b"\xef\xbb\xbf{\"setting\": true}\n"),
    ("bom8txt", b"\xef\xbb\xbfplain text after a byte order mark\n"),
    ("bom16le", b"\xff\xfeh\0i\0"),
    ("bom16be", b"\xfe\xff\0h\0i"),
    ("http", b"HTTP/1.1 200 OK\r\nContent-Length: 2\r\n\r\nhi"),
    ("toml", b"[cors]\nallow_all = true\n"),
];

pub fn magic_content(rng: &mut Rng, kind: Option<&str>) -> Content {
    let (_, head) = match kind {
        Some(k) => *MAGIC.iter().find(|(n, _)| *n == k).unwrap_or(&MAGIC[0]),
        None => *rng.pick(MAGIC),
    };
    // a third of the files are nothing but (a prefix of) the signature: every prefix length of
    // every signature occurs - the two-byte file that is only a byte order mark, the one-byte PNG
    if rng.chance(1, 3) {
        let cut = rng.range(1, head.len().min(6));
        return Content::Literal(head[..cut].to_vec().into());
    }
    let mut v = head.to_vec();
    let extra = rng.below(300);
    for i in 0..extra {
        v.push(b'a' + ((i * 7 + extra) % 26) as u8);
    }
    Content::Literal(v.into())
}

/// suffixes that tools put next to a file
pub const SIBLING_SUFFIXES: &[&str] = &[".gz", ".gz", ".br", ".zst", ".part", ".part", ".bak", "~", ".tmp", ".orig", ".swp", ".map", ".sha256", ".old"];

const NESTED_CONFIG: &str = "ip = '127.0.0.1'\nport = 7888\nthread_count = 2\nrequest-allocation-size-in-bytes = 12000\n\n[cors]\nallow_all = false\nallow_origins = [\"https://evil.example\", \"http://c.example\"]\nallow_methods = [\"GET\", \"DELETE\"]\nallow_headers = [\"x-nested\"]\nallow_credentials = true\nexpose_headers = [\"x-nested\"]\nmax_age = \"7\"\n";
const NESTED_CONFIG_OPEN: &str = "[cors]\nallow_all = true\n";

fn exists(tree: &TreeSpec, p: &str) -> bool {
    tree.entries.iter().any(|e| e.path == p || e.path.starts_with(&format!("{}/", p)) || p.starts_with(&format!("{}/", e.path)) && !matches!(e.kind, EntryKind::Dir))
}

fn push_file(tree: &mut TreeSpec, p: String, c: Content) -> bool {
    if exists(tree, &p) {
        return false;
    }
    tree.entries.push(Entry { path: p, kind: EntryKind::File(c) });
    true
}

/// Adds 1..4 "realistic" entries to a tree (below its root). Returns the request paths of what was added.
pub fn add_realism(rng: &mut Rng, tree: &mut TreeSpec) -> Vec<String> {
    let root = tree.root.clone();
    let mut added: Vec<String> = vec![];
    let files: Vec<(String, usize)> = tree.entries.iter().filter_map(|e| if let EntryKind::File(c) = &e.kind { if e.path.starts_with(&format!("{}/", root)) { Some((e.path.clone(), c.len())) } else { None } } else { None }).collect();
    let mut dirs: Vec<String> = vec![root.clone()];
    for e in &tree.entries {
        if matches!(e.kind, EntryKind::Dir) && e.path.starts_with(&format!("{}/", root)) {
            dirs.push(e.path.clone());
        }
    }
    let rel = |p: &str| format!("/{}", p.strip_prefix(&format!("{}/", root)).unwrap_or(p));
    // the served directory's own name again inside it (docroot /app with /downloads/app.html, docroot
    // /srv/www with a www/ directory): string surgery on absolute paths goes wrong exactly there
    if rng.chance(1, 4) {
        let own = root.rsplit('/').next().unwrap_or("root").to_string();
        let d = rng.pick(&dirs).clone();
        for p in [format!("{}/{}.html", d, own), format!("{}/{}/page.html", root, own), format!("{}/v2/{}.html", root, own), format!("{}/{}-setup.html", d, own), format!("{}/{}/{}/index.html", root, own, own)] {
            if rng.chance(1, 2) && push_file(tree, p.clone(), Content::Gen { marker: format!("MARK-{:08x}-own-\n", rng.next() as u32), len: rng.range(20, 200), seed: rng.next(), binary: false }) {
                added.push(rel(&p));
            }
        }
    }
    for _ in 0..rng.range(1, 4) {
        match rng.below(9) {
            0 | 1 if !files.is_empty() => {
                // a tool's sibling of an existing file
                let (f, len) = files[rng.below(files.len())].clone();
                if f.len() > 200 || len > 1 << 20 {
                    continue;
                }
                let suffix = *rng.pick(SIBLING_SUFFIXES);
                let p = format!("{}{}", f, suffix);
                let original: Option<Content> = tree.entries.iter().find(|e| e.path == f).and_then(|e| if let EntryKind::File(c) = &e.kind { Some(c.clone()) } else { None });
                let c = match suffix {
                    // half of the compressed siblings really are the gzip form of the file (stored
                    // blocks), the others are stale or unrelated bytes behind a gzip signature
                    ".gz" if rng.chance(1, 2) && original.is_some() && len <= 100_000 => Content::GzipOf(Box::new(original.unwrap())),
                    ".gz" => magic_content(rng, Some("gzip")),
                    ".zst" => magic_content(rng, Some("zstd")),
                    ".part" => Content::Gen { marker: String::new(), len: *rng.pick(&[0usize, 1, len / 2, len, len + 1, len + 100]), seed: rng.next(), binary: true },
                    _ => Content::Gen { marker: String::new(), len: rng.range(0, 200), seed: rng.next(), binary: false },
                };
                if push_file(tree, p.clone(), c) {
                    added.push(rel(&p));
                }
            }
            2 => {
                let tok = format!("tok-{:06x}", rng.next() & 0xffffff);
                let p = format!("{}/.well-known/acme-challenge/{}", root, tok);
                if push_file(tree, p.clone(), Content::Literal(format!("{}.thumbprint", tok).into())) {
                    added.push(rel(&p));
                }
                let p = format!("{}/.well-known/security.txt", root);
                if push_file(tree, p.clone(), Content::Literal("Contact: mailto:security@example.org\n".into())) {
                    added.push(rel(&p));
                }
            }
            3 => {
                // a configuration file like the server's own, in the root or in a directory below it
                let d = rng.pick(&dirs).clone();
                let p = format!("{}/rws.config.toml", d);
                let body = if rng.chance(3, 4) { NESTED_CONFIG } else { NESTED_CONFIG_OPEN };
                if push_file(tree, p.clone(), Content::Literal(body.into())) {
                    added.push(rel(&p));
                }
            }
            4 => {
                // content with a signature under a name that says nothing (or something else)
                let d = rng.pick(&dirs).clone();
                let name = match rng.below(6) {
                    0 => format!("blob{}", rng.below(10)),
                    1 => format!("{:016x}", rng.next()),
                    2 => format!("upload-{:04x}.bin", rng.next() & 0xffff),
                    3 => format!("asset{}.dat", rng.below(10)),
                    4 => format!("IMG_{:04}", rng.below(10000)),
                    _ => format!("export{}.txt", rng.below(10)),
                };
                let p = format!("{}/{}", d, name);
                let c = magic_content(rng, None);
                if push_file(tree, p.clone(), c) {
                    added.push(rel(&p));
                }
            }
            5 => {
                // text files that start with a byte order mark
                let d = rng.pick(&dirs).clone();
                let name = *rng.pick(&["settings.json", "readme.txt", "start.html", "feed.xml", "logo.svg", "theme.css", "main.js", "list.csv", "notes.md", "manifest.webmanifest"]);
                let p = format!("{}/{}", d, name);
                let kind = *rng.pick(&["bom8", "bom8txt", "bom8", "bom16le", "bom16be"]);
                if push_file(tree, p.clone(), magic_content(rng, Some(kind))) {
                    added.push(rel(&p));
                }
            }
            6 => {
                // names build tools, cameras, browsers and crawlers know: content hashes, retina
                // suffixes, copies, service workers, icons
                let d = rng.pick(&dirs).clone();
                let name = match rng.below(12) {
                    0 => format!("app.{:08x}.js", rng.next() as u32),
                    1 => format!("main.{:016x}.css", rng.next()),
                    2 => format!("chunk.{:016x}{:016x}.js", rng.next(), rng.next()),
                    3 => format!("logo-{:08x}.png", rng.next() as u32),
                    4 => format!("runtime~main.{:08x}.js", rng.next() as u32),
                    5 => "image@2x.png".to_string(),
                    6 => "report (1).txt".to_string(),
                    7 => format!("IMG_{:04}.JPG", rng.below(10000)),
                    8 => rng.pick(&["service-worker.js", "sw.js", "manifest.json", "package.json", "index.min.js", "bundle.js.LICENSE.txt"]).to_string(),
                    9 => rng.pick(&["favicon.ico", "apple-touch-icon.png", "crossdomain.xml", "browserconfig.xml", "humans.txt", "ads.txt", "sitemap.xml.gz"]).to_string(),
                    10 => format!("{:032x}.jpg", (rng.next() as u128) << 64 | rng.next() as u128),
                    _ => format!("v{}.{}.{}.tar.gz", rng.below(10), rng.below(10), rng.below(100)),
                };
                let p = format!("{}/{}", d, name);
                let c = Content::Gen { marker: String::new(), len: rng.range(0, 400), seed: rng.next(), binary: rng.chance(1, 2) };
                if push_file(tree, p.clone(), c) {
                    added.push(rel(&p));
                }
            }
            _ => {
                let (name, body) = *rng.pick(&[
                    (".htaccess", "Deny from all\n"),
                    (".env", "SECRET_KEY=not-for-the-web\n"),
                    (".git/config", "[core]\n\trepositoryformatversion = 0\n"),
                    ("robots.txt", "User-agent: *\nDisallow: /private/\n"),
                    ("favicon.ico", "\0\0\x01\0"),
                    ("sitemap.xml", "<?xml version=\"1.0\"?><urlset/>"),
                    (".DS_Store", "\0\0\0\x01Bud1"),
                    ("Thumbs.db", "\u{d0}\u{cf}"),
                    ("web.config", "<configuration/>"),
                    ("rws.access.log", "127.0.0.1 - - \"GET / HTTP/1.1\" 200 10\n"),
                ]);
                let p = format!("{}/{}", root, name);
                if push_file(tree, p.clone(), Content::Literal(body.into())) {
                    added.push(rel(&p));
                }
            }
        }
    }
    added
}

/// a string of exactly `n` bytes made of ASCII with multi-byte characters sprinkled in, the first
/// multi-byte character starting at byte `phase` (so that over many draws every byte offset is the
/// middle of a character now and then)
pub fn utf8_of_len(rng: &mut Rng, n: usize, phase: usize) -> String {
    const WIDE: &[&str] = &["\u{e9}", "\u{fc}", "\u{434}", "\u{4e16}", "\u{20ac}", "\u{1f600}", "\u{10348}"];
    let mut s = String::new();
    while s.len() < phase.min(n) {
        s.push((b'a' + (s.len() % 26) as u8) as char);
    }
    while s.len() < n {
        let w = *rng.pick(WIDE);
        if s.len() + w.len() <= n && rng.chance(2, 3) {
            s.push_str(w);
        } else {
            s.push((b'A' + (s.len() % 26) as u8) as char);
        }
    }
    s
}

/// header lines with the syntax slips real clients, proxies and scripts produce
pub const SLIPPED_HEADERS: &[(&str, &str)] = &[
    ("Accept-Encoding", "gzip;"), ("Accept-Encoding", "gzip;q"), ("Accept-Encoding", "gzip;q="), ("Accept-Encoding", "gzip; q=abc"), ("Accept-Encoding", ";"), ("Accept-Encoding", "gzip;;q=1"),
    ("Accept-Encoding", "gzip, deflate;"), ("Accept-Encoding", "*;q"), ("Accept-Encoding", "gzip;level=9;q"), ("Accept-Encoding", ",gzip,"), ("Accept-Encoding", "GZIP"), ("Accept-Encoding", "x-gzip"),
    ("Accept-Encoding", "gzip;q=0"), ("Accept-Encoding", "identity;q=0, gzip"), ("Accept-Encoding", "br"), ("Accept-Encoding", "zstd, br, gzip"), ("Accept-Encoding", ""),
    ("Accept", "text/html;"), ("Accept", "text/html;q"), ("Accept", "*/*;q="), ("Accept", "image/webp,*/*;q=x"), ("Accept", "text/"), ("Accept", "/"), ("Accept", ";q=1"),
    ("Accept-Language", "en;q"), ("Accept-Language", "en-US;q=,de"), ("Accept-Language", "*;"), ("Accept-Charset", "utf-8;q"),
    ("Cookie", "a"), ("Cookie", ";"), ("Cookie", "=v"), ("Cookie", "a=b;;c"), ("Cookie", "a=\"b"), ("Authorization", "Basic"), ("Authorization", "Basic !!!"), ("Authorization", "Bearer"), ("Authorization", " "),
    ("If-None-Match", "\""), ("If-None-Match", "W/"), ("If-None-Match", "*, \"x\""), ("If-None-Match", ","), ("If-Match", "\"x"), ("If-Modified-Since", "x"), ("If-Modified-Since", "0"), ("If-Modified-Since", "-1"),
    ("If-Modified-Since", "Thu, 01 Jan 1970 00:00:00 GMT"), ("If-Modified-Since", "Tue, 19 Jan 2038 03:14:08 GMT"), ("If-Unmodified-Since", "x"), ("If-Range", "W/"), ("If-Range", "x"),
    ("Content-Type", "multipart/form-data"), ("Content-Type", "multipart/form-data; boundary"), ("Content-Type", "multipart/form-data; boundary=\""), ("Content-Type", ";"), ("Content-Type", "text/plain; charset"),
    // addresses with unbalanced brackets and other half-written forms, in every header that carries an address
    ("X-Forwarded-For", "[2001:db8::7"), ("X-Forwarded-For", "[::1"), ("X-Forwarded-For", "2001:db8::7]"), ("X-Forwarded-For", "203.0.113.7, [2001:db8::7"), ("X-Forwarded-For", "[]"), ("X-Forwarded-For", "unknown"),
    ("X-Real-IP", "[::1"), ("X-Client-IP", "[2001:db8::7"), ("CF-Connecting-IP", "[::1"), ("True-Client-IP", "1.2.3.4:"), ("X-Cluster-Client-IP", "[::"), ("Forwarded", "for=\"[2001:db8::7"), ("Forwarded", "for=[::1"), ("Forwarded", "for=\"[::1]:x\""),
    ("Via", "1.1 [::1"), ("X-Forwarded-Host", "[::1"), ("X-Forwarded-Port", "99999999999"), ("X-Forwarded-For", ""),
    ("Forwarded", "for"), ("Forwarded", "for=;"), ("X-Forwarded-For", ","), ("X-Forwarded-For", "a, b, "), ("X-Forwarded-Host", "h:"), ("X-Forwarded-Port", "x"), ("X-Forwarded-Proto", ""),
    ("Host", ":"), ("Host", "h:"), ("Host", "h:x"), ("Host", "[::1"), ("Host", "h:-1"), ("Referer", "http://[::1"), ("Referer", "://"), ("Referer", "http://h:x/"), ("Referer", "h"),
    ("Origin", "http://h:"), ("Origin", "http://h:x"), ("Origin", "http://[::1"), ("Origin", "://"), ("Origin", "http://h:99999999999999999999"),
    ("Range", "bytes"), ("Range", "bytes=1"), ("Range", "=0-1"), ("TE", "trailers;q"), ("Expect", "100-continue;"), ("Connection", ","), ("Upgrade", "/"), ("Via", "1.1"), ("Via", "/"),
    ("Content-Length", "0x"), ("Content-Length", "+1"), ("Transfer-Encoding", "chunked;"), ("Prefer", "return="), ("Priority", "u="), ("Sec-CH-UA", "\""), ("Cache-Control", "max-age="), ("Cache-Control", "max-age=x"),
    ("Access-Control-Request-Method", "PROPFIND"), ("Access-Control-Request-Method", "get"), ("Access-Control-Request-Method", ""), ("Access-Control-Request-Method", "GET, POST"), ("Access-Control-Request-Headers", ","),
    ("Access-Control-Request-Headers", ";"), ("User-Agent", ""), ("User-Agent", "("), ("User-Agent", "/"),
];

/// conditional request headers (a server that starts to honour them must do so alike for GET and HEAD)
pub const CONDITIONAL_HEADERS: &[(&str, &str)] = &[
    ("If-None-Match", "*"), ("If-None-Match", "\"abc\""), ("If-None-Match", "W/\"abc\", \"def\""), ("If-Match", "*"), ("If-Match", "\"abc\""),
    ("If-Modified-Since", "Wed, 21 Oct 2015 07:28:00 GMT"), ("If-Modified-Since", "Fri, 01 Jan 2038 00:00:00 GMT"), ("If-Modified-Since", "Sun, 13 Sep 2020 12:26:40 GMT"),
    ("If-Unmodified-Since", "Thu, 01 Jan 1970 00:00:00 GMT"), ("If-Unmodified-Since", "Fri, 01 Jan 2038 00:00:00 GMT"), ("If-Range", "\"abc\""), ("Cache-Control", "no-cache"), ("Cache-Control", "only-if-cached"),
    ("Accept-Encoding", "gzip"), ("Accept-Encoding", "gzip, deflate, br"), ("Accept-Encoding", "br;q=1.0, gzip;q=0.8, *;q=0.1"), ("Accept", "image/webp,*/*"), ("Accept", "application/json"), ("Accept-Language", "de"),
    ("Prefer", "return=minimal"), ("Save-Data", "on"), ("Want-Digest", "sha-256"), ("A-IM", "feed"), ("X-Requested-With", "XMLHttpRequest"), ("Purpose", "prefetch"), ("Sec-Fetch-Dest", "image"),
];

/// origins that are not scheme://host[:port] of a web site: opaque ones, app and extension schemes,
/// loopback spellings
pub const UNUSUAL_ORIGINS: &[&str] = &["null", "file://", "file:///C:/Users/x/page.html", "data:", "about:blank", "chrome-extension://abcdefghijklmnop", "moz-extension://4f3a-11e9", "app://local", "capacitor://localhost", "ionic://localhost", "http://localhost", "http://localhost:8080", "https://127.0.0.1:8443", "http://[::1]:3000", "http://xn--e1afmkfd.xn--p1ai", "HTTP://A.EXAMPLE", "https://a.example.", "http://a.example:80", "https://b.example:443", "http://user:pw@a.example", "blob:http://a.example/1234", "ws://a.example", "ftp://a.example"];

/// request headers of newer protocols and of infrastructure, with values that enable something
pub const SWITCH_HEADERS: &[(&str, &str)] = &[
    ("Access-Control-Request-Private-Network", "true"), ("Access-Control-Request-Local-Network", "true"), ("Sec-Fetch-Storage-Access", "active"), ("Sec-Purpose", "prefetch;prerender"), ("Origin-Agent-Cluster", "?1"),
    ("Sec-CH-UA-WoW64", "?1"), ("Sec-CH-UA-Form-Factors", "\"Desktop\""), ("Sec-Browsing-Topics", "();p=P0000000000000000000000000000000"), ("Attribution-Reporting-Eligible", "event-source"), ("Accept-Signature", "sig1=()"),
    ("Signature-Input", "sig1=(\"@method\");created=1"), ("Content-Digest", "sha-256=:47DEQpj8HBSa+/TImW+5JCeuQeRkm5NMpJWZG3hSuFU=:"), ("Repr-Digest", "sha-256=:47DEQpj8HBSa+/TImW+5JCeuQeRkm5NMpJWZG3hSuFU=:"), ("Idempotency-Key", "\"8e03978e\""),
    ("Traceparent", "00-4bf92f3577b34da6a3ce929d0e0e4736-00f067aa0ba902b7-01"), ("Tracestate", "a=1"), ("Baggage", "k=v"), ("X-B3-TraceId", "463ac35c9f6413ad"), ("X-Amzn-Trace-Id", "Root=1-5759e988-bd862e3fe1be46a994272793"),
    ("X-Cloud-Trace-Context", "105445aa7843bc8bf206b12000100000/1;o=1"), ("CF-Ray", "230b030023ae2822-SJC"), ("CF-Visitor", "{\"scheme\":\"https\"}"), ("X-Real-IP", "203.0.113.7"), ("X-Forwarded-Ssl", "on"), ("Front-End-Https", "on"),
    ("X-Debug", "1"), ("X-Debug", "true"), ("Debug", "1"), ("X-Verbose", "true"), ("X-Trace", "1"), ("X-No-Cache", "1"), ("X-Purge", "1"), ("X-Refresh", "true"), ("X-Admin", "true"), ("X-Internal", "1"), ("X-Test", "1"),
    ("X-Download", "1"), ("X-Sendfile", "/etc/passwd"), ("X-Accel-Redirect", "/internal/secret"), ("X-Original-Method", "DELETE"), ("X-Method-Override", "PUT"), ("X-Rewrite-URL", "/../secret.txt"), ("X-Forwarded-Prefix", "/app"),
    ("Accept-Push-Policy", "fast-load"), ("Sec-WebSocket-Version", "13"), ("Upgrade", "h2c"), ("HTTP2-Settings", "AAMAAABkAARAAAAAAAIAAAAA"), ("Alt-Used", "a.example:443"), ("Keep-Alive", "timeout=600"), ("Proxy-Connection", "keep-alive"),
    ("Accept-Ranges", "none"), ("Vary", "*"), ("Cache-Control", "public, max-age=31536000"), ("X-Content-Type-Options", "off"), ("X-Frame-Options", "ALLOWALL"), ("Content-Security-Policy", "default-src *"),
];

/// Header *sets* as browsers send them: the fetch-metadata triple (site, mode, destination, with
/// the user-activation flag and the upgrade request on navigations) never arrives one header at a
/// time. Each entry is one (name, value) whose value carries the further lines of the set.
pub const FETCH_BUNDLES: &[(&str, &str)] = &[
    ("Sec-Fetch-Site", "none\r\nSec-Fetch-Mode: navigate\r\nSec-Fetch-Dest: document\r\nSec-Fetch-User: ?1\r\nUpgrade-Insecure-Requests: 1"),
    ("Sec-Fetch-Site", "cross-site\r\nSec-Fetch-Mode: navigate\r\nSec-Fetch-Dest: document\r\nSec-Fetch-User: ?1\r\nUpgrade-Insecure-Requests: 1\r\nReferer: http://other.example/"),
    ("Sec-Fetch-Site", "same-site\r\nSec-Fetch-Mode: navigate\r\nSec-Fetch-Dest: document\r\nUpgrade-Insecure-Requests: 1"),
    ("Sec-Fetch-Site", "cross-site\r\nSec-Fetch-Mode: navigate\r\nSec-Fetch-Dest: iframe\r\nUpgrade-Insecure-Requests: 1\r\nReferer: http://other.example/"),
    ("Sec-Fetch-Site", "same-origin\r\nSec-Fetch-Mode: navigate\r\nSec-Fetch-Dest: iframe\r\nUpgrade-Insecure-Requests: 1"),
    ("Sec-Fetch-Site", "cross-site\r\nSec-Fetch-Mode: navigate\r\nSec-Fetch-Dest: frame"),
    ("Sec-Fetch-Site", "cross-site\r\nSec-Fetch-Mode: navigate\r\nSec-Fetch-Dest: embed"),
    ("Sec-Fetch-Site", "cross-site\r\nSec-Fetch-Mode: navigate\r\nSec-Fetch-Dest: object"),
    ("Sec-Fetch-Site", "cross-site\r\nSec-Fetch-Mode: navigate\r\nSec-Fetch-Dest: fencedframe"),
    ("Sec-Fetch-Site", "cross-site\r\nSec-Fetch-Mode: no-cors\r\nSec-Fetch-Dest: image\r\nAccept: image/avif,image/webp,*/*"),
    ("Sec-Fetch-Site", "cross-site\r\nSec-Fetch-Mode: no-cors\r\nSec-Fetch-Dest: script"),
    ("Sec-Fetch-Site", "same-origin\r\nSec-Fetch-Mode: no-cors\r\nSec-Fetch-Dest: style\r\nAccept: text/css,*/*;q=0.1"),
    ("Sec-Fetch-Site", "cross-site\r\nSec-Fetch-Mode: cors\r\nSec-Fetch-Dest: font\r\nOrigin: http://a.example"),
    ("Sec-Fetch-Site", "cross-site\r\nSec-Fetch-Mode: cors\r\nSec-Fetch-Dest: empty\r\nOrigin: http://a.example"),
    ("Sec-Fetch-Site", "same-origin\r\nSec-Fetch-Mode: cors\r\nSec-Fetch-Dest: empty"),
    ("Sec-Fetch-Site", "same-origin\r\nSec-Fetch-Mode: same-origin\r\nSec-Fetch-Dest: empty"),
    ("Sec-Fetch-Site", "cross-site\r\nSec-Fetch-Mode: no-cors\r\nSec-Fetch-Dest: video\r\nRange: bytes=0-"),
    ("Sec-Fetch-Site", "cross-site\r\nSec-Fetch-Mode: no-cors\r\nSec-Fetch-Dest: audio\r\nRange: bytes=0-1"),
    ("Sec-Fetch-Site", "same-origin\r\nSec-Fetch-Mode: websocket\r\nSec-Fetch-Dest: websocket\r\nUpgrade: websocket\r\nConnection: Upgrade\r\nSec-WebSocket-Key: dGhlIHNhbXBsZSBub25jZQ==\r\nSec-WebSocket-Version: 13"),
    ("Sec-Fetch-Site", "same-origin\r\nSec-Fetch-Mode: same-origin\r\nSec-Fetch-Dest: worker"),
    ("Sec-Fetch-Site", "same-origin\r\nSec-Fetch-Mode: same-origin\r\nSec-Fetch-Dest: serviceworker\r\nService-Worker: script"),
    ("Sec-Fetch-Site", "cross-site\r\nSec-Fetch-Mode: cors\r\nSec-Fetch-Dest: manifest"),
    ("Sec-Fetch-Site", "cross-site\r\nSec-Fetch-Mode: no-cors\r\nSec-Fetch-Dest: empty\r\nPurpose: prefetch\r\nSec-Purpose: prefetch"),
    ("Sec-Fetch-Site", "cross-site\r\nSec-Fetch-Mode: cors\r\nSec-Fetch-Dest: empty\r\nOrigin: http://a.example\r\nAccess-Control-Request-Method: PUT\r\nAccess-Control-Request-Headers: content-type\r\nAccess-Control-Request-Private-Network: true"),
    ("Sec-Fetch-Site", "cross-site\r\nSec-Fetch-Mode: navigate\r\nSec-Fetch-Dest: iframe\r\nOrigin: null\r\nSec-Fetch-Storage-Access: inactive"),
    ("User-Agent", "Mozilla/5.0 (X11; Linux x86_64) AppleWebKit/537.36 (KHTML, like Gecko) Chrome/126.0.0.0 Safari/537.36\r\nsec-ch-ua: \"Chromium\";v=\"126\", \"Not-A.Brand\";v=\"8\"\r\nsec-ch-ua-mobile: ?0\r\nsec-ch-ua-platform: \"Linux\"\r\nAccept: text/html,application/xhtml+xml,application/xml;q=0.9,image/avif,image/webp,*/*;q=0.8\r\nAccept-Encoding: gzip, deflate, br, zstd\r\nAccept-Language: en-US,en;q=0.9\r\nSec-Fetch-Site: none\r\nSec-Fetch-Mode: navigate\r\nSec-Fetch-User: ?1\r\nSec-Fetch-Dest: document\r\nUpgrade-Insecure-Requests: 1\r\nConnection: keep-alive"),
    ("If-Modified-Since", "Sun, 13 Sep 2020 12:26:40 GMT\r\nIf-None-Match: \"abc\"\r\nCache-Control: max-age=0"),
    ("If-Modified-Since", "Thu, 31 Dec 2020 00:00:00 GMT"), ("If-Modified-Since", "Tue, 31 Dec 2024 12:00:00 GMT"), ("If-Modified-Since", "Thu, 29 Feb 2024 12:00:00 GMT"),
    ("If-Modified-Since", "Thu, 01 Jan 1970 00:00:00 GMT"), ("If-Modified-Since", "Sat, 31 Dec 2022 23:59:59 GMT"), ("If-Unmodified-Since", "Thu, 31 Dec 2020 00:00:00 GMT"),
    ("If-Range", "Thu, 31 Dec 2020 00:00:00 GMT\r\nRange: bytes=0-3"),
];

const SITES: [&str; 5] = ["cross-site", "same-site", "same-origin", "none", "Cross-Site"];
const MODES: [&str; 6] = ["navigate", "cors", "no-cors", "same-origin", "websocket", "nested-navigate"];
const DESTS: [&str; 24] = ["document", "iframe", "frame", "embed", "object", "fencedframe", "image", "script", "style", "font", "audio", "video", "track", "worker", "sharedworker", "serviceworker", "manifest", "empty", "report", "xslt", "audioworklet", "paintworklet", "webidentity", "json"];

/// a fetch-metadata set from the whole product site x mode x destination, as further header lines
pub fn fetch_metadata(rng: &mut Rng) -> Vec<(String, String)> {
    let mut v = vec![
        ("Sec-Fetch-Site".to_string(), rng.pick(&SITES).to_string()),
        ("Sec-Fetch-Mode".to_string(), rng.pick(&MODES).to_string()),
        ("Sec-Fetch-Dest".to_string(), rng.pick(&DESTS).to_string()),
    ];
    if rng.chance(1, 3) {
        v.push(("Sec-Fetch-User".into(), "?1".into()));
    }
    if rng.chance(1, 3) {
        v.push(("Upgrade-Insecure-Requests".into(), "1".into()));
    }
    if rng.chance(1, 3) {
        v.push(("Origin".into(), rng.pick(&["http://a.example", "null", "https://other.example"]).to_string()));
    }
    if rng.chance(1, 4) {
        v.push(("Referer".into(), "http://other.example/page".into()));
    }
    // (order as sent differs between browsers)
    if rng.chance(1, 2) {
        v.reverse();
    }
    v
}

/// extension methods a preflight may name
pub const EXTENSION_METHODS: &[&str] = &["PROPFIND", "REPORT", "PURGE", "MKCOL", "LOCK", "SEARCH", "QUERY", "get", "Get", "", "GET,POST", "*", "BREW"];

/// insert one header line after the request line
pub fn with_header(request: &[u8], name: &str, value: &str) -> Vec<u8> {
    let pos = match crate::util::find(request, b"\r\n") {
        Some(p) => p + 2,
        None => return request.to_vec(),
    };
    let mut v = request[..pos].to_vec();
    v.extend_from_slice(format!("{}: {}\r\n", name, value).as_bytes());
    v.extend_from_slice(&request[pos..]);
    v
}

/// one decoration from this module: a slipped header, a long / multi-byte value in a header servers
/// log or reflect, or a conditional header
pub fn decorate_real(rng: &mut Rng, request: &[u8], allow_slips: bool) -> Vec<u8> {
    match rng.below(if allow_slips { 6 } else { 3 }) {
        0 => {
            let (n, v) = *rng.pick(CONDITIONAL_HEADERS);
            with_header(request, n, v)
        }
        1 | 2 => {
            let name = *rng.pick(&["User-Agent", "User-Agent", "Referer", "Cookie", "X-Forwarded-For", "Accept-Language", "Via", "From", "X-Request-ID"]);
            let n = match rng.below(4) {
                0 => rng.range(1, 70),
                1 => rng.range(60, 140),
                2 => rng.range(120, 300),
                _ => *rng.pick(&[255usize, 256, 257, 511, 512, 513, 1023, 1024, 1025, 2047, 2048, 2049]),
            };
            let phase = if rng.chance(1, 2) { rng.below(n.max(1)) } else { n.saturating_sub(rng.below(8)) };
            with_header(request, name, &utf8_of_len(rng, n, phase))
        }
        _ => {
            let (n, v) = *rng.pick(SLIPPED_HEADERS);
            with_header(request, n, v)
        }
    }
}
