//! C02 (documented lookup, exact bytes, media type) and C03 (byte ranges): refinement against
//! the reference model on generated trees, through the production path.

use super::common::*;
use super::*;

pub fn c02_scenario(seed: u64, idx: u64) -> Scenario {
    let mut rng = rng_for(seed, "C02", "lookup", idx);
    let mut sc = Scenario::base("C02", "lookup", idx);
    sc.engine = Engine::System;
    sc.sched = pick_sched(&mut rng);
    sc.workers = rng.range(1, 4);
    sc.request_size = pick_buffer(&mut rng).max(1024);
    sc.yields = pick_yields(&mut rng);
    let big = rng.chance(1, 4);
    let nonce = rng.next();
    sc.tree = gen_tree(&mut rng, &TreeOpts { root: "root".into(), max_entries: if big { 8 } else { 14 }, big_files: big, symlinks: true, request_size: sc.request_size, nonce });
    // hot-pair mode: one directory with an index page and an .html sibling, asked for in all
    // spellings at once, many times over (lookups that could take each other's result)
    let hot = rng.chance(1, 4);
    if hot {
        let d = *rng.pick(&["hot", "docs", "a.b"]);
        let name = *rng.pick(&["page", "file", "index2", "v1.2"]);
        for (k, f) in [format!("root/{}/index.html", d), format!("root/{}/{}.html", d, name), format!("root/{}/other.txt", d)].iter().enumerate() {
            if !sc.tree.entries.iter().any(|e| &e.path == f) {
                sc.tree.entries.retain(|e| e.path != format!("root/{}", d) || matches!(e.kind, EntryKind::Dir));
                sc.tree.entries.push(Entry { path: f.clone(), kind: EntryKind::File(Content::Gen { marker: format!("{}\n", marker(nonce, 700 + k)), len: 90 + 10 * k, seed: k as u64, binary: false }) });
            }
        }
        sc.yields = all_yields();
        sc.workers = rng.range(2, 4);
        let spellings = [format!("/{}/", d), format!("/{}", d), format!("/{}/{}", d, name), format!("/{}/{}.html", d, name), format!("/{}/other.txt", d), format!("/{}/?x=1", d)];
        let n = rng.range(4, 12);
        for i in 0..n {
            let p = spellings[rng.below(spellings.len())].clone();
            sc.conns.push(Conn::simple(i, 0, get(&p), "hot_pair"));
        }
        return sc;
    }
    let paths = tree_paths(&mut rng, &sc.tree);
    let n = rng.range(2, 12).min(paths.len());
    let overlapped = rng.chance(2, 3);
    for i in 0..n {
        let (p, class) = paths[rng.below(paths.len())].clone();
        // now and then the same path was asked for with a Range header just before
        let bytes = if i % 2 == 1 && rng.chance(1, 2) {
            let prev = crate::wire::view_request(&sc.conns[i - 1].request.0).target;
            if rng.chance(1, 2) { get(&prev) } else { req("GET", &prev, &[("Range", *rng.pick(&["bytes=0-3", "bytes=2-", "bytes=-4", "bytes=0-1,3-4"]))], b"") }
        } else if rng.chance(1, 6) {
            req("GET", &p, &[("Range", *rng.pick(&["bytes=0-3", "bytes=2-", "bytes=-4", "bytes=0-1,3-4"]))], b"")
        } else if rng.chance(1, 4) {
            // headers that select nothing in this server: content codings, long and multi-byte values
            match rng.below(3) {
                0 => req("GET", &p, &[("Accept-Encoding", *rng.pick(&["gzip", "gzip, deflate, br", "br;q=1.0, gzip;q=0.8, *;q=0.1", "zstd", "identity", "*", "gzip;q=0"]))], b""),
                1 => {
                    let n = rng.range(20, 300);
                    let ph = rng.below(n);
                    let v = super::real::utf8_of_len(&mut rng, n, ph);
                    req("GET", &p, &[(*rng.pick(&["User-Agent", "Referer", "Cookie", "Accept-Language"]), &v)], b"")
                }
                _ => { let (n, v) = *rng.pick(super::real::SLIPPED_HEADERS); if n == "Range" || n == "Host" || n.starts_with("If-") { get(&p) } else { req("GET", &p, &[(n, v)], b"") } }
            }
        } else {
            get(&p)
        };
        let mut c = Conn::simple(i, if overlapped { 0 } else { i as u32 }, bytes, class);
        if rng.chance(1, 5) {
            transport_fault(&mut rng, &mut c, &["short_write"]);
            if big {
                if let Cuts::Every(k) = c.faults.cuts {
                    c.faults.cuts = Cuts::Every(k.max(64));
                }
            }
        }
        sc.conns.push(c);
    }
    if rng.chance(1, 8) {
        sc.disk_fault = Some(DiskFault { op: "touch".into(), nth: rng.range(1, 10) as u32, kind: "owner_touch".into(), sticky: false });
    }
    sc
}

const LENGTHS: &[usize] = &[0, 1, 2, 3, 10, 255, 300, 8191, 8192, 8193, 65535, 65536, 65537];

fn offset_pool(l: u64, rng: &mut crate::util::Rng) -> String {
    match rng.below(12) {
        0 => "0".into(),
        1 => "1".into(),
        2 => l.saturating_sub(2).to_string(),
        3 => l.saturating_sub(1).to_string(),
        4 => l.to_string(),
        5 => (l + 1).to_string(),
        6 => u64::MAX.to_string(),
        7 => "18446744073709551616".into(),
        8 => rng.pick(&["a", "-", "1e3", "0x1", "+1", " ", "٣"]).to_string(),
        _ => {
            if l > 0 {
                rng.below(l as usize).to_string()
            } else {
                "0".into()
            }
        }
    }
}

pub fn range_value(l: u64, rng: &mut crate::util::Rng) -> String {
    if rng.chance(1, 25) {
        return rng.pick(&["bytes", "bytes=", "bytes=-", "chars=0-1", "bytes 0-1", "bytes=0-1;2-3", "BYTES=0-1", "bytes=,", "bytes=0-1,", "bytes = 0-1", "=0-1", ""]).to_string();
    }
    let k = match rng.below(10) {
        0..=5 => 1,
        6..=7 => 2,
        8 => 3,
        _ => rng.range(4, 6),
    };
    let mut specs: Vec<String> = vec![];
    let mut last_inside: Option<(u64, u64)> = None;
    for _ in 0..k {
        // chained specs: the next one starts on, right after or before the previous one's last byte
        if let Some((pa, pb)) = last_inside {
            if rng.chance(1, 3) && l > 0 {
                let a = match rng.below(4) {
                    0 => pb,
                    1 => (pb + 1).min(l - 1),
                    2 => pa,
                    _ => pb.saturating_sub(1),
                };
                let b = (a + rng.below(8) as u64).min(l - 1);
                specs.push(format!("{}-{}", a, b));
                last_inside = Some((a, b));
                continue;
            }
        }
        // bias towards specs that lie inside the file
        let inside = rng.chance(3, 5) && l > 0;
        let s = match rng.below(3) {
            0 => {
                if inside {
                    let a = rng.below(l as usize) as u64;
                    let b = a + rng.below((l - a) as usize) as u64;
                    last_inside = Some((a, b));
                    format!("{}-{}", a, b)
                } else {
                    format!("{}-{}", offset_pool(l, rng), offset_pool(l, rng))
                }
            }
            1 => {
                if inside {
                    format!("{}-", rng.below(l as usize))
                } else {
                    format!("{}-", offset_pool(l, rng))
                }
            }
            _ => {
                if inside {
                    format!("-{}", rng.range(1, l as usize))
                } else {
                    format!("-{}", offset_pool(l, rng))
                }
            }
        };
        let s = match rng.below(8) {
            0 => format!(" {}", s),
            1 => format!("{} ", s),
            2 => s.replace('-', " - "),
            _ => s,
        };
        specs.push(s);
    }
    format!("bytes={}", specs.join(if rng.chance(1, 3) { ", " } else { "," }))
}

pub fn c03_scenario(seed: u64, idx: u64) -> Scenario {
    let mut rng = rng_for(seed, "C03", "ranges", idx);
    let mut sc = Scenario::base("C03", "ranges", idx);
    sc.engine = Engine::System;
    sc.sched = pick_sched(&mut rng);
    sc.workers = rng.range(1, 3);
    sc.request_size = 10000;
    sc.yields = pick_yields(&mut rng);
    let nonce = rng.next();
    let nfiles = rng.range(1, 3);
    let mut files: Vec<(String, u64)> = vec![];
    let mut entries = vec![];
    for k in 0..nfiles {
        let l = if rng.chance(1, 6) { rng.range(4, 1 << 20) } else if rng.chance(1, 4) { rng.range(4, 2000) } else { *rng.pick(LENGTHS) };
        let (name, via) = match rng.below(5) {
            0 => (format!("f{}.bin", k), format!("/f{}.bin", k)),
            1 => (format!("p{}.html", k), format!("/p{}", k)),
            2 => (format!("dir{}/index.html", k), format!("/dir{}/", k)),
            3 => (format!("dir{}/index.html", k), format!("/dir{}", k)),
            _ => (format!("t{}.txt", k), format!("/t{}.txt?v=1", k)),
        };
        // position-dependent bytes: a slice identifies its offset
        entries.push(Entry { path: format!("root/{}", name), kind: EntryKind::File(Content::Gen { marker: String::new(), len: l, seed: nonce.wrapping_add(k as u64 * 7919), binary: true }) });
        // now and then a precompressed sibling lies next to the file
        if rng.chance(1, 4) {
            let suffix = *rng.pick(&[".gz", ".gz", ".br", ".zst"]);
            let sl = *rng.pick(&[0usize, 1, 30, 300, l / 2 + 1, l + 7]);
            entries.push(Entry { path: format!("root/{}{}", name, suffix), kind: EntryKind::File(Content::Gen { marker: String::new(), len: sl, seed: nonce.wrapping_add(k as u64 * 131 + 5), binary: true }) });
        }
        files.push((via, l as u64));
    }
    if rng.chance(1, 3) {
        // through a symbolic link with the same extension
        let (via, l) = files[0].clone();
        if via.ends_with(".bin") {
            entries.push(Entry { path: "root/ln.bin".into(), kind: EntryKind::Symlink(via[1..].to_string()) });
            files.push(("/ln.bin".into(), l));
        }
    }
    sc.tree = TreeSpec { root: "root".into(), entries, mtime_mode: 0, meta_mode: 0 };
    let n = rng.range(1, 6);
    let overlapped = rng.chance(1, 2);
    for i in 0..n {
        let (via, l) = files[rng.below(files.len())].clone();
        let rv = range_value(l, &mut rng);
        let hname = *rng.pick(&["Range", "Range", "Range", "range", "RANGE"]);
        let mut hs: Vec<(&str, &str)> = vec![(hname, &rv)];
        // a validator the server may or may not know: either answer (206 slice, 200 whole file) is fine
        let if_range = *rng.pick(&["1600000000000000000", "\"1600000000000000000\"", "0", "1", "\"abc\"", "W/\"abc\"", "Wed, 21 Oct 2015 07:28:00 GMT", "Fri, 01 Jan 2038 00:00:00 GMT", "garbage", ""]);
        if rng.chance(1, 5) {
            hs.push(("If-Range", if_range));
        }
        let extra = *rng.pick(&[("Accept-Encoding", "gzip"), ("Accept-Encoding", "gzip, deflate, br"), ("Accept-Encoding", "br;q=1.0, gzip;q=0.8, *;q=0.1"), ("Accept-Encoding", "zstd"), ("Accept-Encoding", "identity"), ("Accept", "*/*"), ("User-Agent", "curl/8.0"), ("Cache-Control", "no-cache")]);
        if rng.chance(1, 4) {
            hs.push(extra);
        }
        sc.conns.push(Conn::simple(i, if overlapped { 0 } else { i as u32 }, req("GET", &via, &hs, b""), "range"));
    }
    // afterwards, on the same workers: requests that carry no Range header at all - whole, or torn
    // behind the request line or inside the header block (the server reads once)
    if rng.chance(1, 4) {
        let base = sc.conns.len();
        for k in 0..rng.range(1, 3) {
            let (via, _) = files[rng.below(files.len())].clone();
            let bytes = req("GET", &via, &[("Accept", "*/*"), ("User-Agent", "curl/8.0")], b"");
            let mut c = Conn::simple(base + k, (n + k) as u32, bytes, "no_range");
            if rng.chance(2, 3) {
                let len = c.request.0.len();
                let line_end = crate::util::find(&c.request.0, b"\r\n").map(|p| p + 2).unwrap_or(len / 2);
                let cut = match rng.below(3) { 0 => line_end, 1 => rng.range(line_end, len - 1), _ => rng.range(4, line_end) };
                if cut > 0 && cut < len {
                    c.delivery = vec![Seg { len: cut, yields_before: 0 }, Seg { len: len - cut, yields_before: rng.range(2, 8) as u32 }];
                    c.class = "no_range_torn".into();
                }
            }
            sc.conns.push(c);
        }
    }
    // a sixth of the runs: the owner touches a file (new modification time, same bytes) right before
    // one of the first stat calls the server makes - a deploy landing inside a request
    if rng.chance(1, 6) {
        sc.disk_fault = Some(DiskFault { op: "touch".into(), nth: rng.range(1, 10) as u32, kind: "owner_touch".into(), sticky: false });
    }
    sc
}

// ---------------------------------------------------------------------------------- large files
// Sparse files (see `Content::Sparse`): "big" ones that can still be served whole (2 MiB - 128 MiB,
// around the powers of two a buffering or chunking threshold would sit at) and "huge" ones beyond
// 2^31 / 2^32 bytes of which only short slices are requested.

const BIG: &[u64] = &[(2 << 20) + 1, (8 << 20) + 1, (16 << 20) + 5, (32 << 20) + 3, (64 << 20) - 1, 64 << 20, (64 << 20) + 4096, 100_000_000, (128 << 20) + 1];
const HUGE: &[u64] = &[(1 << 31) - 1, 1 << 31, (1 << 31) + 10, (1 << 32) - 1, 1 << 32, (1 << 32) + 4096, 5 * (1 << 30) + 7];

/// a short in-file spec: next to an island, at the end, or anywhere
pub fn narrow_spec(l: u64, rng: &mut crate::util::Rng) -> String {
    let near = |rng: &mut crate::util::Rng| -> u64 {
        match rng.below(4) {
            0 => {
                // around a power of two below l
                let mut ks: Vec<u32> = vec![];
                let mut k = 12u32;
                while (1u64 << k) < l {
                    ks.push(k);
                    k += 1;
                }
                let c = 1u64 << *rng.pick(&ks);
                (c - 40 + rng.below(80) as u64).min(l - 1)
            }
            1 => l - 1 - rng.below(100) as u64,
            2 => rng.below(100) as u64,
            _ => rng.next() % l,
        }
    };
    match rng.below(4) {
        0 | 1 => {
            let a = near(rng);
            let span = if rng.chance(1, 4) { 65_536 } else { 100 };
            let b = (a + rng.below(span) as u64).min(l - 1);
            format!("{}-{}", a, b)
        }
        2 => format!("{}-", l - 1 - rng.below(200) as u64),
        _ => format!("-{}", 1 + rng.below(200)),
    }
}

/// a spec that covers (nearly) the whole file
fn wide_spec(l: u64, rng: &mut crate::util::Rng) -> String {
    match rng.below(6) {
        0 => "0-".into(),
        1 => format!("-{}", l),
        2 => format!("0-{}", l - 1),
        3 => format!("{}-", rng.below(5000)),
        4 => format!("-{}", l - rng.below(5000) as u64),
        _ => format!("{}-{}", rng.below(5000), l - 1 - rng.below(5000) as u64),
    }
}

pub fn large_scenario(prop: &str, seed: u64, idx: u64) -> Scenario {
    let mut rng = rng_for(seed, prop, "large_files", idx);
    let mut sc = Scenario::base(prop, "large_files", idx);
    sc.engine = Engine::System;
    sc.sched = pick_sched(&mut rng);
    sc.workers = rng.range(1, 2);
    sc.request_size = 10000;
    sc.yields = pick_yields(&mut rng);
    let huge = prop == "C03" && rng.chance(1, 2);
    let l = if huge { *rng.pick(HUGE) } else { *rng.pick(BIG) };
    let (name, via) = match rng.below(3) {
        0 => ("big.bin", "/big.bin"),
        1 => ("big.html", "/big"),
        _ => ("v/index.html", "/v/"),
    };
    sc.tree = TreeSpec { root: "root".into(), entries: vec![Entry { path: format!("root/{}", name), kind: EntryKind::File(Content::Sparse { len: l, seed: rng.next() }) }], mtime_mode: 0, meta_mode: 0 };
    if prop == "C02" {
        sc.conns.push(Conn::simple(0, 0, req("GET", via, &[], b""), "large"));
        return sc;
    }
    if prop == "C05" || prop == "C09" {
        // the same large file asked for with GET, HEAD and OPTIONS (in this or another order)
        let hs: Vec<(&str, &str)> = if rng.chance(1, 3) { vec![("Origin", "http://a.example"), ("Access-Control-Request-Method", "GET")] } else { vec![] };
        sc.env = vec![];
        let mut order = vec!["GET", "HEAD", "OPTIONS"];
        if prop == "C05" {
            rng.shuffle(&mut order);
            order.truncate(rng.range(1, 3));
            for (i, m) in order.iter().enumerate() {
                sc.conns.push(Conn::simple(i, i as u32, req(m, via, &hs, b""), "large"));
            }
        } else {
            sc.conns.push(Conn::simple(0, 0, req("GET", via, &hs, b""), "get"));
            let mut h = Conn::simple(1, 1, req("HEAD", via, &hs, b""), "head");
            h.twin = Some(0);
            sc.conns.push(h);
            let mut o = Conn::simple(2, 2, req("OPTIONS", via, &hs, b""), "options");
            o.twin = Some(0);
            sc.conns.push(o);
        }
        return sc;
    }
    let n = if huge { rng.range(1, 4) } else { 1 };
    for i in 0..n {
        let mut specs: Vec<String> = vec![];
        if rng.chance(1, 5) {
            // very many one-byte parts: sums over the parts grow with parts x file size
            for _ in 0..*rng.pick(&[40usize, 300, 1200, 2300]) {
                let a = rng.below(10);
                specs.push(format!("{}-{}", a, a));
            }
        } else if huge || rng.chance(1, 3) {
            for _ in 0..rng.range(1, 3) {
                specs.push(narrow_spec(l, &mut rng));
            }
        } else {
            // at most two wide parts (each is held in memory several times over)
            specs.push(wide_spec(l, &mut rng));
            match rng.below(3) {
                0 => {}
                1 => specs.push(narrow_spec(l, &mut rng)),
                _ => specs.push(wide_spec(l, &mut rng)),
            }
            if rng.chance(1, 2) {
                specs.reverse();
            }
        }
        let rv = format!("bytes={}", specs.join(if specs.len() < 10 && rng.chance(1, 2) { ", " } else { "," }));
        sc.conns.push(Conn::simple(i, i as u32, req("GET", via, &[("Range", &rv)], b""), "range"));
    }
    sc
}

pub fn plan_c02(tier: Tier, seed: u64) -> Vec<Campaign> {
    vec![
        Campaign { name: "lookup", budget: match tier { Tier::Quick => Budget::Count(4000), Tier::Thorough => Budget::Time(1) }, exhaustive: false, gen: Box::new(move |i| c02_scenario(seed, i)) },
        Campaign { name: "large_files", budget: Budget::Count(match tier { Tier::Quick => 32, Tier::Thorough => 320 }), exhaustive: false, gen: Box::new(move |i| large_scenario("C02", seed, i)) },
    ]
}

pub fn plan_c03(tier: Tier, seed: u64) -> Vec<Campaign> {
    vec![
        Campaign { name: "ranges", budget: match tier { Tier::Quick => Budget::Count(6000), Tier::Thorough => Budget::Time(1) }, exhaustive: false, gen: Box::new(move |i| c03_scenario(seed, i)) },
        Campaign { name: "large_files", budget: Budget::Count(match tier { Tier::Quick => 96, Tier::Thorough => 1600 }), exhaustive: false, gen: Box::new(move |i| large_scenario("C03", seed, i)) },
    ]
}
