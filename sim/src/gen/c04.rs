//! C04 (every connection answered, no crash) and C10 (hardening headers on every response):
//! the request grammar at full strength on the production node.

use super::common::*;
use super::*;

pub fn scenario(seed: u64, campaign: &'static str, prop: &'static str, idx: u64) -> Scenario {
    let mut rng = rng_for(seed, prop, campaign, idx);
    let mut sc = Scenario::base(prop, campaign, idx);
    sc.engine = Engine::System;
    sc.sched = pick_sched(&mut rng);
    sc.workers = rng.range(1, 4);
    sc.request_size = pick_buffer(&mut rng);
    sc.yields = pick_yields(&mut rng);
    sc.tree = small_tree(rng.next());
    if prop == "C10" && rng.chance(1, 2) {
        sc.env = super::c09::cors_env(&mut rng);
    }
    let n = rng.range(1, 6);
    let targets = ["/file.txt", "/page.html", "/page", "/d/", "/d", "/big.bin", "/", "/missing.txt", "/empty.txt", "/one.txt"];
    let faults: Vec<&str> = match campaign {
        "segmented" => vec!["seg"],
        "faulted" => swarm_subset(&mut rng, &["seg", "eof", "eof_mid", "read_err", "short_write", "write_zero", "write_err", "flush_err", "client_gone", "handler_err", "stall", "handler_panic"]),
        _ => vec![],
    };
    let overlapped = rng.chance(1, 2);
    for i in 0..n {
        let target = targets[rng.below(targets.len())];
        let (class, bytes) = mutated_request(&mut rng, target, sc.request_size as usize);
        let bytes = if rng.chance(1, 3) { decorate(&mut rng, &bytes) } else { bytes };
        let mut c = Conn::simple(i, if overlapped { 0 } else { i as u32 }, bytes, class);
        if c.request.0.is_empty() {
            c.request = crate::util::Bytes(b"G".to_vec());
        }
        if campaign == "mutations" || campaign == "responses" {
            if rng.chance(1, 12) {
                c.faults.handler_err = true;
            }
            if campaign == "responses" && rng.chance(1, 8) {
                transport_fault(&mut rng, &mut c, &["read_err"]);
            }
        } else if !faults.is_empty() && rng.chance(if campaign == "segmented" { 1 } else { 3 }, if campaign == "segmented" { 2 } else { 10 }) {
            transport_fault(&mut rng, &mut c, &faults);
        }
        sc.conns.push(c);
    }
    sc.probe = Probe::FollowUp { request: probe_request().into() };
    sc
}

pub fn plan(tier: Tier, seed: u64) -> Vec<Campaign> {
    let mk = |name: &'static str, quick: u64, weight: u32| Campaign {
        name,
        budget: match tier {
            Tier::Quick => Budget::Count(quick),
            Tier::Thorough => Budget::Time(weight),
        },
        exhaustive: false,
        gen: Box::new(move |i| scenario(seed, name, "C04", i)),
    };
    vec![mk("mutations", 6000, 6), mk("segmented", 1500, 2), mk("faulted", 1500, 2)]
}

pub fn plan_c10(tier: Tier, seed: u64) -> Vec<Campaign> {
    vec![Campaign {
        name: "responses",
        budget: match tier {
            Tier::Quick => Budget::Count(6000),
            Tier::Thorough => Budget::Time(1),
        },
        exhaustive: false,
        gen: Box::new(move |i| scenario(seed, "responses", "C10", i)),
    }]
}
