//! C04 (every connection answered, no crash) and C10 (hardening headers on every response):
//! the request grammar at full strength on the production node.

use super::common::*;
use super::*;

pub fn scenario(seed: u64, campaign: &'static str, prop: &'static str, idx: u64) -> Scenario {
    let mut rng = rng_for(seed, prop, campaign, idx);
    let mut sc = Scenario::base(prop, campaign, idx);
    sc.engine = Engine::System;
    sc.sched = pick_sched(&mut rng);
    sc.workers = rng.range(1, 4);
    sc.request_size = pick_buffer(&mut rng);
    sc.yields = pick_yields(&mut rng);
    sc.tree = small_tree(rng.next());
    let mut real_paths: Vec<String> = vec![];
    if rng.chance(1, 2) {
        real_paths = super::real::add_realism(&mut rng, &mut sc.tree);
    }
    if (prop == "C10" && rng.chance(1, 2)) || (prop == "C04" && rng.chance(1, 4)) {
        sc.env = super::c09::cors_env(&mut rng);
    }
    let configured: Vec<String> = sc.env.iter().find(|(k, _)| k == "RWS_CONFIG_CORS_ALLOW_ORIGINS").map(|(_, v)| v.split(',').filter(|x| !x.is_empty()).map(|x| x.to_string()).collect()).unwrap_or_default();
    let n = rng.range(1, 6);
    let targets = ["/file.txt", "/page.html", "/page", "/d/", "/d", "/big.bin", "/", "/missing.txt", "/empty.txt", "/one.txt"];
    let faults: Vec<&str> = match campaign {
        "segmented" => vec!["seg"],
        "faulted" => swarm_subset(&mut rng, &["seg", "eof", "eof_mid", "read_err", "short_write", "write_zero", "write_err", "flush_err", "client_gone", "handler_err", "stall", "handler_panic"]),
        _ => vec![],
    };
    let overlapped = rng.chance(1, 2);
    for i in 0..n {
        // (what the realism layer added to the tree is asked for as well)
        let target: &str = if !real_paths.is_empty() && rng.chance(1, 3) { rng.pick(&real_paths).as_str() } else { targets[rng.below(targets.len())] };
        let (class, bytes) = mutated_request(&mut rng, target, sc.request_size as usize);
        let bytes = match rng.below(7) {
            0 | 1 => decorate(&mut rng, &bytes),
            2 if prop != "C10" => decorate_odd(&mut rng, &bytes),
            3 => super::real::decorate_real(&mut rng, &bytes, true),
            _ => bytes,
        };
        // an Origin made from a configured one: the same with something appended (a port, a colon, a path)
        let (class, bytes) = if !configured.is_empty() && rng.chance(1, 5) {
            let o = format!("{}{}", rng.pick(&configured), rng.pick(&[":", ":80", ":443", ":44x", ":99999999999999999999999", ":-1", "/", ".", ":0", ": ", "::", ":8080:1", "#", "?", "@evil.example"]));
            ("origin_configured_plus_suffix", req(*rng.pick(&["GET", "OPTIONS", "HEAD", "POST"]), target, &[("Origin", &o), ("Access-Control-Request-Method", "GET")], b""))
        } else {
            (class, bytes)
        };
        let mut c = Conn::simple(i, if overlapped { 0 } else { i as u32 }, bytes, class);
        if c.request.0.is_empty() {
            c.request = crate::util::Bytes(b"G".to_vec());
        }
        if campaign == "mutations" || campaign == "responses" {
            if rng.chance(1, 12) {
                c.faults.handler_err = true;
            }
            if campaign == "responses" && rng.chance(1, 8) {
                transport_fault(&mut rng, &mut c, &["read_err"]);
            }
        } else if !faults.is_empty() && rng.chance(if campaign == "segmented" { 1 } else { 3 }, if campaign == "segmented" { 2 } else { 10 }) {
            transport_fault(&mut rng, &mut c, &faults);
        }
        sc.conns.push(c);
    }
    sc.probe = Probe::FollowUp { request: probe_request().into() };
    sc
}

/// long histories of mostly ordinary requests on few workers: counters, caches and thresholds
/// that only matter after many requests
pub fn long_history(seed: u64, idx: u64) -> Scenario {
    let mut rng = rng_for(seed, "C04", "long_histories", idx);
    let mut sc = Scenario::base("C04", "long_histories", idx);
    sc.engine = Engine::System;
    sc.sched = pick_sched(&mut rng);
    sc.workers = rng.range(1, 3);
    sc.request_size = 10000;
    sc.tree = small_tree(rng.next());
    let n = *rng.pick(&[64usize, 100, 128, 129, 200, 256, 257, 300, 520]);
    let targets = ["/file.txt", "/page.html", "/page", "/d/", "/", "/missing.txt", "/empty.txt", "/one.txt", "/big.bin"];
    for i in 0..n {
        let t = targets[rng.below(targets.len())];
        let (class, bytes) = match rng.below(10) {
            0 => mutated_request(&mut rng, t, 10000),
            1 => ("range", req("GET", t, &[("Range", *rng.pick(&["bytes=0-3", "bytes=2-", "bytes=-4", "bytes=0-1,3-4"]))], b"")),
            2 => ("head", req("HEAD", t, &[], b"")),
            3 => ("options", req("OPTIONS", t, &[("Origin", "http://a.example")], b"")),
            _ => ("get", get(t)),
        };
        // a few connections at a time
        sc.conns.push(Conn::simple(i, (i / 3) as u32, if bytes.is_empty() { b"G".to_vec() } else { bytes }, class));
    }
    sc.probe = Probe::FollowUp { request: probe_request().into() };
    sc
}

/// one stalled connection and a burst of more than a thousand ordinary ones in the same phase:
/// queue limits and other thresholds far beyond the worker count
pub fn burst(seed: u64, idx: u64) -> Scenario {
    burst_for("C04", seed, idx)
}

pub fn burst_for(prop: &'static str, seed: u64, idx: u64) -> Scenario {
    let mut rng = rng_for(seed, prop, "burst", idx);
    let mut sc = Scenario::base(prop, "burst", idx);
    sc.engine = Engine::System;
    sc.sched = Sched { kind: SchedKind::Random, seed: rng.next(), depth: 0 };
    sc.workers = rng.range(2, 3);
    sc.request_size = 10000;
    sc.tree = small_tree(rng.next());
    let mut stall = Conn::simple(0, 0, get("/file.txt"), "stall");
    stall.client = ClientMode::Stall { then_send: true };
    sc.conns.push(stall);
    let n = *rng.pick(&[1030usize, 1100, 1100, 2060]);
    for i in 1..=n {
        sc.conns.push(Conn::simple(i, 0, get(*rng.pick(&["/file.txt", "/one.txt", "/missing.txt"])), "get"));
    }
    sc.probe = Probe::FollowUp { request: probe_request().into() };
    sc
}

/// files far larger than anything else in the workloads (sparse, up to beyond 2^32 bytes) and
/// Range headers with up to 2300 specs: sums, casts and counters that only overflow at extreme
/// values. Only short slices of the huge files are requested.
pub fn extreme_sizes(seed: u64, idx: u64) -> Scenario {
    let mut rng = rng_for(seed, "C04", "extreme_sizes", idx);
    let mut sc = Scenario::base("C04", "extreme_sizes", idx);
    sc.engine = Engine::System;
    sc.sched = pick_sched(&mut rng);
    sc.workers = rng.range(1, 2);
    sc.request_size = 10000;
    sc.yields = pick_yields(&mut rng);
    // (up to tera- and petabytes: disk images and archives are served from sparse files too)
    let l: u64 = *rng.pick(&[1 << 20, (3 << 20) + 1, (1 << 31) - 1, 1 << 31, (1 << 32) + 4096, (1 << 40) - 1, 1 << 40, (1 << 40) + 4097, 1 << 43, (1u64 << 50) + 1, (1u64 << 62) + 3]);
    sc.tree = TreeSpec { root: "root".into(), entries: vec![Entry { path: "root/big.bin".into(), kind: EntryKind::File(Content::Sparse { len: l, seed: rng.next() }) }, Entry { path: "root/probe.txt".into(), kind: EntryKind::File(Content::Literal("probe\n".into())) }], mtime_mode: 0, meta_mode: 0 };
    for i in 0..rng.range(1, 3) {
        let k = *rng.pick(&[1usize, 2, 3, 50, 600, 2300]);
        let specs: Vec<String> = (0..k)
            .map(|_| {
                if k <= 3 {
                    super::c02::narrow_spec(l, &mut rng)
                } else {
                    let a = rng.below(10);
                    format!("{}-{}", a, a)
                }
            })
            .collect();
        let rv = format!("bytes={}", specs.join(","));
        let method = if l < (1 << 30) && rng.chance(1, 5) { "HEAD" } else { "GET" };
        let bytes = if l < (1 << 30) && rng.chance(1, 8) { req(method, "/big.bin", &[], b"") } else { req(method, "/big.bin", &[("Range", &rv)], b"") };
        sc.conns.push(Conn::simple(i, i as u32, bytes, "range"));
    }
    sc.probe = Probe::FollowUp { request: probe_request().into() };
    sc
}

pub fn plan(tier: Tier, seed: u64) -> Vec<Campaign> {
    let mk = |name: &'static str, quick: u64, weight: u32| Campaign {
        name,
        budget: match tier {
            Tier::Quick => Budget::Count(quick),
            Tier::Thorough => Budget::Time(weight),
        },
        exhaustive: false,
        gen: Box::new(move |i| scenario(seed, name, "C04", i)),
    };
    let mut v = vec![mk("mutations", 6000, 6), mk("segmented", 1500, 2), mk("faulted", 1500, 2)];
    v.push(Campaign {
        name: "long_histories",
        budget: match tier {
            Tier::Quick => Budget::Count(160),
            Tier::Thorough => Budget::Time(2),
        },
        exhaustive: false,
        gen: Box::new(move |i| long_history(seed, i)),
    });
    v.push(Campaign {
        name: "burst",
        budget: match tier {
            Tier::Quick => Budget::Count(8),
            Tier::Thorough => Budget::Time(1),
        },
        exhaustive: false,
        gen: Box::new(move |i| burst(seed, i)),
    });
    v.push(Campaign { name: "disk_faults", budget: match tier { Tier::Quick => Budget::Count(2000), Tier::Thorough => Budget::Time(1) }, exhaustive: false, gen: Box::new(move |i| super::c06::disk_faults_for("C04", seed, i)) });
    v.push(Campaign { name: "extreme_sizes", budget: Budget::Count(match tier { Tier::Quick => 96, Tier::Thorough => 1200 }), exhaustive: false, gen: Box::new(move |i| extreme_sizes(seed, i)) });
    v
}

pub fn plan_c10(tier: Tier, seed: u64) -> Vec<Campaign> {
    vec![Campaign {
        name: "responses",
        budget: match tier {
            Tier::Quick => Budget::Count(6000),
            Tier::Thorough => Budget::Time(1),
        },
        exhaustive: false,
        gen: Box::new(move |i| scenario(seed, "responses", "C10", i)),
    }, Campaign {
        // every answer of an overloaded server is a response too
        name: "burst",
        budget: Budget::Count(match tier { Tier::Quick => 6, Tier::Thorough => 60 }),
        exhaustive: false,
        gen: Box::new(move |i| burst_for("C10", seed, i)),
    }]
}
