//! C01: secrets planted at every ancestor level of the served directory; targets from the
//! segment grammar; both request entry points.

use super::common::*;
use super::*;

pub fn scenario(seed: u64, idx: u64) -> Scenario {
    let mut rng = rng_for(seed, "C01", "traversal", idx);
    let mut sc = Scenario::base("C01", "traversal", idx);
    sc.engine = if rng.chance(1, 3) { Engine::Legacy } else { Engine::System };
    sc.sched = pick_sched(&mut rng);
    sc.workers = rng.range(1, 3);
    sc.request_size = 10000;
    let nonce = rng.next() as u32;
    let depth = rng.range(1, 5);
    let mut prefix = String::new(); // ancestors: "", "o1", "o1/o2", ...
    let mut levels: Vec<String> = vec![String::new()];
    for j in 1..depth {
        prefix = if prefix.is_empty() { format!("o{}", j) } else { format!("{}/o{}", prefix, j) };
        levels.push(prefix.clone());
    }
    let root = if prefix.is_empty() { "root".to_string() } else { format!("{}/root", prefix) };
    let mut entries = vec![];
    let in_names = ["a.txt", "page.html", "index.html", "d/index.html", "d/e/deep.txt", "h#x/in.txt", "q?y/in.txt", "%2e%2e/in.txt"];
    for (k, n) in in_names.iter().enumerate() {
        entries.push(Entry { path: format!("{}/{}", root, n), kind: EntryKind::File(Content::Gen { marker: format!("MARK-{:08x}-{}-\n", nonce, k), len: 120, seed: k as u64, binary: false }) });
    }
    // directories with conventional names inside the root (a feature keyed on such a prefix must not
    // become a way out either)
    const CONVENTIONAL: &[&str] = &[".well-known/acme-challenge", ".well-known", "static", "assets/img", "files", "uploads", "download", "api/v1", "cgi-bin", "public", "~user", "media", "tmp", "cache", "private",
        // names whose byte length, character count and UTF-16 length all differ (scans that mix them up)
        "写真アルバムと旅行の記録", "Überraschungsgrüße-für-Ägypten", "фотографии/отпуск-2024", "😀😀😀😀😀😀😀😀", "é", "ünï/çödé/каталог", "a\u{300}\u{301}\u{302}\u{303}\u{304}\u{305}\u{306}\u{307}"];
    let mut conventional: Vec<&str> = vec![];
    for _ in 0..rng.range(0, 3) {
        let d = *rng.pick(CONVENTIONAL);
        if !conventional.contains(&d) {
            conventional.push(d);
            entries.push(Entry { path: format!("{}/{}/token-{}", root, d, conventional.len()), kind: EntryKind::File(Content::Gen { marker: format!("MARK-{:08x}-c{}-\n", nonce, conventional.len()), len: 60, seed: 77, binary: false }) });
        }
    }
    // secrets for each lookup form at every ancestor level and in sibling directories
    let mut secret_names: Vec<String> = vec![];
    for (j, lvl) in levels.iter().enumerate() {
        let at = |n: &str| if lvl.is_empty() { n.to_string() } else { format!("{}/{}", lvl, n) };
        for (kind, name) in [
            ("file", format!("secret-{}.txt", j)),
            ("html", format!("secret-{}.html", j)),
            ("dirindex", format!("sd-{}/index.html", j)),
            ("index", "index.html".to_string()),
            ("samename", "a.txt".to_string()),
            ("sibling", format!("sib-{}/secret.txt", j)),
        ] {
            entries.push(Entry { path: at(&name), kind: EntryKind::File(Content::Gen { marker: format!("S3CR3T-{:08x}-{}-{}\n", nonce, j, kind), len: 100, seed: j as u64, binary: false }) });
            secret_names.push(name);
        }
    }
    // now and then one of the files outside is large (a dump, a backup): sparse, 1 MiB ... 64 MiB
    if rng.chance(1, 8) {
        let j = rng.below(levels.len());
        let lvl = &levels[j];
        let name = format!("backup-{}.bin", j);
        let len: u64 = *rng.pick(&[(1 << 20) + 1, 8 << 20, (16 << 20) - 1, 16 << 20, (16 << 20) + 1, (32 << 20) + 7, (64 << 20) + 5]);
        entries.push(Entry { path: if lvl.is_empty() { name.clone() } else { format!("{}/{}", lvl, name) }, kind: EntryKind::File(Content::Sparse { len, seed: nonce as u64 }) });
        // (asked for often in this run)
        for _ in 0..8 {
            secret_names.push(name.clone());
        }
    }
    // siblings whose name begins with the served directory's name (string-prefix containment checks)
    let parent = if prefix.is_empty() { String::new() } else { format!("{}/", prefix) };
    for (kind, name) in [("prefixsibling", "root-backup/secret.txt"), ("prefixsibling_index", "root-backup/index.html"), ("prefixsibling2", "root2/secret.txt"), ("prefixsibling_html", "rootx.html")] {
        entries.push(Entry { path: format!("{}{}", parent, name), kind: EntryKind::File(Content::Gen { marker: format!("S3CR3T-{:08x}-p-{}\n", nonce, kind), len: 100, seed: 3, binary: false }) });
    }
    // owner-placed link leaving the root: serving it is allowed
    entries.push(Entry { path: "linked-target.txt".into(), kind: EntryKind::File(Content::Gen { marker: format!("LINKED-{:08x}-\n", nonce), len: 80, seed: 1, binary: false }) });
    let ups = "../".repeat(depth);
    entries.push(Entry { path: format!("{}/out.txt", root), kind: EntryKind::Symlink(format!("{}linked-target.txt", ups)) });
    // a directory link inside the root, and below the real directory a file link whose relative
    // target climbs but physically stays inside the root (textual link resolution goes wrong here)
    entries.push(Entry { path: format!("{}/lnk", root), kind: EntryKind::Symlink("d/e".into()) });
    entries.push(Entry { path: format!("{}/d/e/back.txt", root), kind: EntryKind::Symlink("../../a.txt".into()) });
    entries.push(Entry { path: format!("{}/d/e/back.html", root), kind: EntryKind::Symlink("../../index.html".into()) });
    // links inside nested directories whose relative target stays inside the root
    entries.push(Entry { path: format!("{}/d/up.txt", root), kind: EntryKind::Symlink("../a.txt".into()) });
    entries.push(Entry { path: format!("{}/d/e/upup.txt", root), kind: EntryKind::Symlink("../../a.txt".into()) });
    entries.push(Entry { path: format!("{}/d/e/side.html", root), kind: EntryKind::Symlink("../index.html".into()) });
    sc.tree = TreeSpec { root, entries, mtime_mode: 0, meta_mode: (idx % 4) as u8 };

    let n = rng.range(2, 8);
    // a third of the runs serve their connections four at a time, with every stage hook on: a climbing
    // request next to ordinary ones
    let overlapped = rng.chance(1, 3);
    if overlapped {
        sc.yields = all_yields();
        sc.workers = rng.range(2, 4);
    }
    for i in 0..n {
        // an ordinary request for a file of the tree now and then (its answer must be its own file)
        if overlapped && rng.chance(1, 3) {
            let p = *rng.pick(&["/a.txt", "/page.html", "/page", "/d/", "/d/e/deep.txt", "/index.html"]);
            sc.conns.push(Conn::simple(i, (i / 4) as u32, get(p), "ordinary"));
            continue;
        }
        // target = prefix form + segments
        let nseg = rng.range(1, 12);
        let mut segs: Vec<String> = vec![];
        let climb_first = rng.chance(2, 3);
        for s in 0..nseg {
            let pick = if climb_first && s < depth + 1 && rng.chance(3, 4) { 0 } else { rng.below(14) };
            // in climbing position, now and then a spelling that only *becomes* ".." after some
            // normalisation (path parameters, NUL, encodings, other separators, trailing dots and blanks)
            if pick == 0 && rng.chance(1, 5) {
                segs.push(rng.pick(&["..;", "..;v=1", "..;jsessionid=1", "..%00", "..%20", ".. ", "...", "..%2e", "%2e%2e", ".%2e", "%2e.", "..\\", "..%5c", "..%2f", "..?", "..#", "%252e%252e", "..%c0%af", "\u{ff0e}\u{ff0e}", "..\t"]).to_string());
                continue;
            }
            segs.push(match pick {
                0 | 1 => "..".into(),
                2 => ".".into(),
                3 => "".into(),
                4 => rng.pick(&["d", "d", "h#x", "q?y", "%2e%2e"]).to_string(),
                5 => "e".into(),
                6 => "%2e%2e".into(),
                7 => rng.pick(&["%2E.", ".%2e", "..%2f", "....", "..;", "..%00", "%2e%2e%2f", "..\\"]).to_string(),
                8 => format!("o{}", rng.range(1, 4)),
                9 => rng.pick(&["root", "root-backup", "root2", "rootx"]).to_string(),
                10 => rng.pick(&in_names).to_string(),
                _ => rng.pick(&secret_names).clone(),
            });
        }
        // end on a file-ish name most of the time
        if rng.chance(3, 4) {
            let last = if rng.chance(1, 6) {
                rng.pick(&["root-backup/secret.txt", "root-backup/", "root-backup", "root2/secret.txt", "rootx", "rootx.html"]).to_string()
            } else if rng.chance(3, 4) {
                rng.pick(&secret_names).clone()
            } else {
                rng.pick(&in_names).to_string()
            };
            let last = if rng.chance(1, 4) { last.trim_end_matches(".html").trim_end_matches("/index").to_string() } else { last };
            segs.push(last);
        }
        let path = segs.join("/");
        let target = match rng.below(15) {
            14 => {
                let n = *rng.pick(&[300usize, 1022, 1023, 1024, 1100, 2100, 4200]);
                let sep = *rng.pick(&["/", "/./", "/d/../"]);
                let tail = if rng.chance(1, 2) { rng.pick(&secret_names).clone() } else { "a.txt".to_string() };
                let body: String = std::iter::repeat(sep).take((n * 1).min(9000 / sep.len())).collect();
                format!("{}{}{}", body, "../".repeat(rng.range(1, depth)), tail)
            }
            9 if !conventional.is_empty() => {
                // through a conventional directory and up again, further than it is deep
                let d = *rng.pick(&conventional);
                let d_depth = d.matches('/').count() + 1;
                let ups = "../".repeat(d_depth + rng.range(1, depth + 1));
                let tail = if rng.chance(3, 4) { rng.pick(&secret_names).clone() } else { "a.txt".to_string() };
                let tail = if rng.chance(1, 4) { tail.trim_end_matches(".html").to_string() } else { tail };
                format!("/{}/{}{}", d, ups, tail)
            }
            12 => rng.pick(&["//etc/passwd", "///etc/passwd", "/.//etc/passwd", "//etc//passwd", "/d//etc/passwd", "/%2fetc/passwd", "/etc/passwd", "/d/up.txt", "/d/e/upup.txt", "/d/e/side.html", "/d/e/side"]).to_string(),
            13 => rng.pick(&["/d/up.txt", "/d/e/upup.txt", "/d/e/side.html", "/out.txt", "/lnk/back.txt", "/lnk/back.html", "/lnk/back", "/lnk/deep.txt", "/lnk/", "/lnk"]).to_string(),
            10 => format!("/h#x/{}?y=1", path),
            11 => format!("/{}?y#z", path),
            0 => path.clone(),
            1 => format!("http://h/{}", path),
            2 => format!("//h/{}", path),
            3 => format!("/{}?x=1", path),
            4 => format!("/{}#f", path),
            _ => format!("/{}", path),
        };
        let method = *rng.pick(&["GET", "GET", "GET", "GET", "HEAD", "OPTIONS", "POST"]);
        let mut hs: Vec<(&str, String)> = vec![];
        if rng.chance(1, 4) {
            hs.push(("Host", rng.pick(&["..", "../..", "..:7878", ".", "o1", "root-backup", "root2", "sib-0", "localhost/..", "a/../..", "%2e%2e", "d", "d/e"]).to_string()));
        }
        if rng.chance(1, 3) {
            hs.push(("Range", rng.pick(&["bytes=0-3", "bytes=0-", "bytes=-5", "bytes=0-3,5-9", "bytes=0-99999"]).to_string()));
        }
        let hs2: Vec<(&str, &str)> = hs.iter().map(|(a, b)| (*a, b.as_str())).collect();
        let mut c = Conn::simple(i, if overlapped { (i / 4) as u32 } else { i as u32 }, req(method, &target, &hs2, b""), "traversal");
        if rng.chance(1, 10) {
            transport_fault(&mut rng, &mut c, &["short_write", "seg"]);
        }
        sc.conns.push(c);
    }
    // a benign target, then a climbing one whose text collides with it under a well-known weak 32-bit
    // string hash (FNV, djb2, sdbm, Java's, Jenkins', CRC-32; pairs precomputed by tools/collide): caches
    // and memo tables keyed by such a fingerprint take the second for the first
    if rng.chance(1, 8) {
        let pairs: Vec<(&str, &str)> = include_str!("collisions.txt").lines().filter_map(|l| { let mut it = l.split('\t'); let _h = it.next()?; Some((it.next()?, it.next()?)) }).collect();
        if !pairs.is_empty() {
            let (benign, climbing) = *rng.pick(&pairs);
            let ph = sc.conns.iter().map(|c| c.phase).max().unwrap_or(0) + 1;
            let id = sc.conns.len();
            sc.conns.push(Conn::simple(id, ph, req("GET", benign, &[], b""), "collision_benign"));
            sc.conns.push(Conn::simple(id + 1, ph + 1, req("GET", climbing, &[], b""), "collision_climbing"));
        }
    }
    // now and then the owner removes the served directory while the server runs: whatever the server
    // makes of a working directory that is gone, it is no licence to serve the rest of the disk
    if !overlapped && n >= 3 && rng.chance(1, 12) {
        sc.owner_ops.push(OwnerOp { before_phase: rng.range(1, n - 1) as u32, kind: if rng.chance(1, 2) { "remove_tree".into() } else { "replace_with_empty_dir".into() }, path: sc.tree.root.clone() });
    }
    sc
}

pub fn plan(tier: Tier, seed: u64) -> Vec<Campaign> {
    vec![Campaign { name: "traversal", budget: match tier { Tier::Quick => Budget::Count(6000), Tier::Thorough => Budget::Time(1) }, exhaustive: false, gen: Box::new(move |i| scenario(seed, i)) }]
}
