//! C05: well-formedness on every response kind, reflection of hostile header values, and the
//! enumeration of short-write patterns (every chunk size 1..64, a cut at every byte offset of
//! the head and beyond).

use super::common::*;
use super::*;

pub const MAX_CHUNK: u64 = 64;
pub const MAX_OFFSET: u64 = 1400;

/// requests covering every response kind
pub fn palette() -> Vec<(&'static str, Vec<u8>)> {
    let mp = "--B\r\nContent-Disposition: form-data; name=\"f\"\r\n\r\nvalue\r\n--B--\r\n";
    vec![
        ("200_file", get("/file.txt")),
        ("200_html_fallback", get("/page")),
        ("200_dir_index", get("/d/")),
        ("200_big", get("/big.bin")),
        ("200_root_builtin", get("/")),
        ("200_style_builtin", get("/style.css")),
        ("206_single", req("GET", "/file.txt", &[("Range", "bytes=10-99")], b"")),
        ("206_open_ended", req("GET", "/file.txt", &[("Range", "bytes=250-")], b"")),
        ("206_suffix", req("GET", "/file.txt", &[("Range", "bytes=-10")], b"")),
        ("206_multipart", req("GET", "/file.txt", &[("Range", "bytes=0-9,20-29,290-299")], b"")),
        ("416", req("GET", "/file.txt", &[("Range", "bytes=900-1000")], b"")),
        ("range_at_end_of_file", req("GET", "/file.txt", &[("Range", "bytes=300-")], b"")),
        ("range_suffix_zero", req("GET", "/file.txt", &[("Range", "bytes=-0")], b"")),
        ("range_last_byte", req("GET", "/file.txt", &[("Range", "bytes=299-299")], b"")),
        ("404", get("/missing.txt")),
        ("400_parse", b"BREW / HTTP/1.1\r\n\r\n".to_vec()),
        ("400_version", b"GET / HTTP/9.9\r\n\r\n".to_vec()),
        ("head_file", req("HEAD", "/file.txt", &[], b"")),
        ("head_root", req("HEAD", "/", &[], b"")),
        ("options_file", req("OPTIONS", "/file.txt", &[("Origin", "http://a.example"), ("Access-Control-Request-Method", "GET"), ("Access-Control-Request-Headers", "X-A, X-B")], b"")),
        ("options_root", req("OPTIONS", "/", &[("Origin", "http://a.example"), ("Access-Control-Request-Method", "POST")], b"")),
        ("get_with_origin", req("GET", "/file.txt", &[("Origin", "http://a.example")], b"")),
        ("form_get", get("/form-get-method?a=1&b=two")),
        ("form_urlencoded", req("POST", FORM_URLENC, &[("Content-Type", "application/x-www-form-urlencoded"), ("Content-Length", "7")], b"a=1&b=2")),
        ("form_multipart", req("POST", FORM_MULTIPART, &[("Content-Type", "multipart/form-data; boundary=B"), ("Content-Length", &mp.len().to_string())], mp.as_bytes())),
        ("file_upload", req("POST", "/file-upload/initiate?name=a.txt&size=5&lastModified=1", &[("Content-Length", "5")], b"hello")),
        ("post_static", req("POST", "/file.txt", &[("Content-Length", "3")], b"abc")),
        ("put_missing", req("PUT", "/new.txt", &[("Content-Length", "3")], b"abc")),
        ("200_bom_json", get("/bom.json")),
        ("200_bom_txt", get("/bom.txt")),
        ("200_bom_html", get("/bom.html")),
        ("200_bom16", get("/bom16.txt")),
        ("200_only_bom", get("/onlybom.txt")),
        ("200_only_bom16", get("/onlybom16.txt")),
        ("206_bom_from_0", req("GET", "/bom.json", &[("Range", "bytes=0-")], b"")),
        ("206_bom_prefix", req("GET", "/bom.txt", &[("Range", "bytes=0-5")], b"")),
        ("206_crlf_multipart", req("GET", "/crlf.txt", &[("Range", "bytes=0-9, 20-29")], b"")),
        ("200_gz_sibling_accept_gzip", req("GET", "/file.txt", &[("Accept-Encoding", "gzip")], b"")),
        ("head_bom_json", req("HEAD", "/bom.json", &[], b"")),
        // a client that announces a body and waits for the go-ahead before sending it
        ("expect_continue_post", req("POST", FORM_URLENC, &[("Content-Type", "application/x-www-form-urlencoded"), ("Content-Length", "7"), ("Expect", "100-continue")], b"")),
        ("expect_continue_put", req("PUT", "/file.txt", &[("Content-Length", "3"), ("Expect", "100-continue")], b"")),
    ]
}

fn base(seed: u64, campaign: &'static str, idx: u64) -> (Scenario, crate::util::Rng) {
    let mut rng = rng_for(seed, "C05", campaign, idx);
    let mut sc = Scenario::base("C05", campaign, idx);
    sc.engine = Engine::System;
    sc.sched = Sched { kind: SchedKind::Random, seed: rng.next(), depth: 0 };
    sc.workers = 1;
    sc.request_size = 10000;
    sc.tree = small_tree(0xC05);
    // text files that begin with a byte order mark, signature-only files, a compressed sibling
    for (name, c) in [
        ("bom.json", Content::Literal(b"\xef\xbb\xbf{\"setting\": true}\n".to_vec().into())),
        ("bom.txt", Content::Literal(b"\xef\xbb\xbfplain text after a byte order mark\n".to_vec().into())),
        ("bom.html", Content::Literal(b"\xef\xbb\xbf<!DOCTYPE html><p>x</p>\n".to_vec().into())),
        ("bom16.txt", Content::Literal(b"\xff\xfeh\0i\0".to_vec().into())),
        ("onlybom.txt", Content::Literal(b"\xef\xbb\xbf".to_vec().into())),
        ("onlybom16.txt", Content::Literal(b"\xff\xfe".to_vec().into())),
        ("crlf.txt", Content::Literal("line 000\r\nline 001\r\nline 002\r\nline 003\r\nline 004\r\n".into())),
    ] {
        sc.tree.entries.push(Entry { path: format!("root/{}", name), kind: EntryKind::File(c) });
    }
    (sc, rng)
}

/// index -> (request, pattern): patterns 0..64 are chunk sizes 1..=64, the rest single cuts
pub fn enumerated(seed: u64, idx: u64) -> Scenario {
    let (mut sc, _rng) = base(seed, "short_write_enumeration", idx);
    let pal = palette();
    let per = MAX_CHUNK + MAX_OFFSET;
    let k = (idx / per) as usize % pal.len();
    let p = idx % per;
    let cuts = if p < MAX_CHUNK { Cuts::Every((p + 1) as usize) } else { Cuts::At(vec![(p - MAX_CHUNK + 1) as usize]) };
    let (class, mut bytes) = pal[k].clone();
    // the client that waits for the go-ahead sends its body as a second piece, a little later
    let mut delivery = vec![];
    // (only where the answer does not depend on whether the body had arrived when the server read)
    if class == "expect_continue_put" {
        let head = bytes.len();
        bytes.extend_from_slice(b"abc");
        delivery = vec![Seg { len: head, yields_before: 0 }, Seg { len: bytes.len() - head, yields_before: 6 }];
    }
    let mut a = Conn::simple(0, 0, bytes.clone(), class);
    a.delivery = delivery.clone();
    sc.conns.push(a);
    let mut c = Conn::simple(1, 1, bytes, class);
    c.delivery = delivery;
    c.faults.cuts = cuts;
    c.twin = Some(0);
    sc.conns.push(c);
    sc
}

pub fn enumeration_size() -> u64 {
    palette().len() as u64 * (MAX_CHUNK + MAX_OFFSET)
}

const HOSTILE: &[&str] = &[
    "http://a.example\r\nX-Injected: 1",
    "http://a.example\nX-Injected: 1",
    "http://a.example\rX-Injected: 1",
    "http://a.example\0",
    "http://a.example: x: y",
    "x\r\n\r\nHTTP/1.1 200 OK\r\nContent-Length: 0\r\n\r\n",
    "\r\nSet-Cookie: a=b",
    "a\u{85}b\u{2028}c",
];

/// well-formedness of every response kind + reflection pairs, clean transport
pub fn wellformed(seed: u64, idx: u64) -> Scenario {
    let (mut sc, mut rng) = base(seed, "wellformed_and_reflection", idx);
    sc.workers = rng.range(1, 3);
    sc.request_size = pick_buffer(&mut rng).max(1024);
    let pal = palette();
    let n = rng.range(1, 4);
    for _ in 0..n {
        let id = sc.conns.len();
        match rng.below(4) {
            3 => {
                // the application handler reports an error: that answer is a response too
                let (class, bytes) = pal[rng.below(pal.len())].clone();
                let mut c = Conn::simple(id, id as u32, bytes, class);
                c.faults.handler_err = true;
                sc.conns.push(c);
            }
            0 => {
                let (class, bytes) = pal[rng.below(pal.len())].clone();
                sc.conns.push(Conn::simple(id, id as u32, bytes, class));
            }
            1 => {
                let (class, bytes) = mutated_request(&mut rng, "/file.txt", sc.request_size as usize);
                sc.conns.push(Conn::simple(id, id as u32, if bytes.is_empty() { b"G".to_vec() } else { bytes }, class));
            }
            _ if rng.chance(1, 3) => {
                // reflection through the request target: a query parameter whose value decodes to
                // header syntax, next to the same request with a benign value
                let pname = *rng.pick(QUERY_PARAMS);
                let method = *rng.pick(&["GET", "GET", "HEAD", "OPTIONS"]);
                let target = *rng.pick(&["/file.txt", "/page", "/d/", "/d", "/", "/missing", "/style.css"]);
                let mk = |val: &str| req(method, &format!("{}?{}={}", target, pname, val), &[("Origin", "http://a.example")], b"");
                sc.conns.push(Conn::simple(id, id as u32, mk(*rng.pick(QUERY_BENIGN)), "query_benign"));
                // percent-encoded header syntax, or raw control characters a request line can carry
                const RAW: &[&str] = &["x\rX-Injected:1", "x\rSet-Cookie:injected=1", "\rX-Injected:1", "x\x0bX-Injected:1", "x\x0cX-Injected:1", "x\r\rX-Injected:1", "x\u{85}X-Injected:1", "x\tX-Injected:1", "x\rX-Injected: 1"];
                let hostile = if rng.chance(1, 2) { *rng.pick(RAW) } else { *rng.pick(QUERY_INJECT) };
                let mut c = Conn::simple(id + 1, id as u32 + 1, mk(hostile), "query_hostile");
                c.twin = Some(id);
                sc.conns.push(c);
            }
            _ => {
                // reflection pair: same request with benign and with hostile values
                let hname = *rng.pick(&["Origin", "Access-Control-Request-Method", "Access-Control-Request-Headers", "Range", "Content-Type", "Host"]);
                let method = *rng.pick(&["GET", "OPTIONS", "HEAD", "POST"]);
                let target = *rng.pick(&["/file.txt", "/", "/missing", "/form-get-method?a=1"]);
                let hostile = *rng.pick(HOSTILE);
                let mk = |val: &str| {
                    let mut hs: Vec<(&str, &str)> = vec![("Origin", "http://a.example"), ("Access-Control-Request-Method", "GET")];
                    hs.retain(|(n, _)| *n != hname);
                    hs.push((hname, val));
                    // values are written raw: the point is what the server does with the bytes
                    let mut v = format!("{} {} HTTP/1.1\r\n", method, target).into_bytes();
                    for (n, val) in hs {
                        v.extend_from_slice(n.as_bytes());
                        v.extend_from_slice(b": ");
                        v.extend_from_slice(val.as_bytes());
                        v.extend_from_slice(b"\r\n");
                    }
                    v.extend_from_slice(b"\r\n");
                    v
                };
                let benign = match hname {
                    "Range" => "bytes=0-1",
                    "Content-Type" => "text/plain",
                    "Host" => "localhost",
                    "Origin" => "http://b.example",
                    _ => "X-Ok",
                };
                sc.conns.push(Conn::simple(id, id as u32, mk(benign), "reflect_benign"));
                let mut c = Conn::simple(id + 1, id as u32 + 1, mk(hostile), "reflect_hostile");
                c.twin = Some(id);
                sc.conns.push(c);
            }
        }
    }
    // a quarter of the runs: an allow-list CORS configuration read from rws.config.toml by the real
    // start-up code, in every layout editors produce (CRLF line ends, comments, arrays over several
    // lines), and preflights from a configured origin: whatever the file means to the reader, the
    // response has to be well-formed
    if rng.chance(1, 4) {
        sc.env = super::c09::cors_env(&mut rng);
        if rng.chance(2, 3) {
            sc.env.retain(|(k, _)| k != "RWS_CONFIG_CORS_ALLOW_ALL");
            sc.env.push(("RWS_CONFIG_CORS_ALLOW_ALL".into(), "false".into()));
        }
        let origins: Vec<String> = sc.env.iter().find(|(k, _)| k == "RWS_CONFIG_CORS_ALLOW_ORIGINS").map(|(_, v)| v.split(',').filter(|x| !x.is_empty()).map(|x| x.to_string()).collect()).unwrap_or_default();
        let multiline = rng.chance(1, 2);
        boot_through_start_up(&mut rng, &mut sc, multiline);
        for _ in 0..rng.range(1, 3) {
            let id = sc.conns.len();
            let o = if origins.is_empty() || rng.chance(1, 4) { "http://a.example".to_string() } else { origins[rng.below(origins.len())].clone() };
            let m = *rng.pick(&["OPTIONS", "OPTIONS", "GET", "HEAD"]);
            sc.conns.push(Conn::simple(id, id as u32, req(m, *rng.pick(&["/file.txt", "/", "/missing"]), &[("Origin", &o), ("Access-Control-Request-Method", "PUT"), ("Access-Control-Request-Headers", "content-type")], b""), "configured_origin"));
        }
    }
    sc
}

/// thorough: random multi-split patterns over random palette requests
pub fn multi_split(seed: u64, idx: u64) -> Scenario {
    let (mut sc, mut rng) = base(seed, "random_multi_split", idx);
    sc.sched = pick_sched(&mut rng);
    sc.workers = rng.range(1, 3);
    let pal = palette();
    let (class, bytes) = pal[rng.below(pal.len())].clone();
    sc.conns.push(Conn::simple(0, 0, bytes.clone(), class));
    let mut c = Conn::simple(1, if rng.chance(1, 2) { 0 } else { 1 }, bytes, class);
    transport_fault(&mut rng, &mut c, &["short_write"]);
    c.twin = Some(0);
    sc.conns.push(c);
    sc
}

/// a write error, Ok(0) or EINTR at a seeded offset: what reaches the peer must be a prefix of the
/// response (the whole response when the error is a retryable EINTR)
pub fn write_faults(seed: u64, idx: u64) -> Scenario {
    let (mut sc, mut rng) = base(seed, "write_fault_prefix", idx);
    sc.sched = pick_sched(&mut rng);
    sc.workers = rng.range(1, 2);
    let pal = palette();
    let (class, bytes) = pal[rng.below(pal.len())].clone();
    sc.conns.push(Conn::simple(0, 0, bytes.clone(), class));
    let mut c = Conn::simple(1, 1, bytes, class);
    let at = *rng.pick(&[0usize, 1, 7, 64, 300, 600, 700, 800, 1000, 1500, 5000]);
    match rng.below(4) {
        0 => c.faults.write_fault = Some(WriteFault { at, kind: IoKind::Interrupted, sticky: false }),
        1 => c.faults.write_fault = Some(WriteFault { at, kind: *rng.pick(&[IoKind::BrokenPipe, IoKind::ConnectionReset, IoKind::WouldBlock, IoKind::TimedOut]), sticky: true }),
        2 => c.faults.write_zero_at = Some(at),
        _ => {
            c.faults.write_fault = Some(WriteFault { at, kind: IoKind::Interrupted, sticky: false });
            c.faults.cuts = Cuts::Every(rng.range(1, 200));
        }
    }
    c.twin = Some(0);
    sc.conns.push(c);
    sc
}

/// request buffers as large as upload-accepting deployments configure them (16 000 ... 131 072
/// bytes) and reflected header values that fill them: the response head grows to tens of kilobytes
pub fn reflect_large(seed: u64, idx: u64) -> Scenario {
    let (mut sc, mut rng) = base(seed, "reflect_large", idx);
    sc.workers = rng.range(1, 2);
    sc.request_size = *rng.pick(&[16000i64, 17000, 20000, 32768, 40000, 65536, 131072]);
    let room = (sc.request_size as usize).saturating_sub(300);
    for id in 0..rng.range(1, 2) {
        let frac = *rng.pick(&[35usize, 45, 50, 60, 70, 90, 99]);
        let len = room * frac / 100;
        let list: String = (0..len / 8 + 1).map(|i| format!("x-hdr-{:02}", i % 100)).collect::<Vec<_>>().join(",")[..len.max(1)].to_string();
        let (o, m, h) = match rng.below(4) {
            0 => (format!("http://{}.example", "h".repeat(len)), "GET".to_string(), "X-A".to_string()),
            1 | 2 => ("http://a.example".to_string(), "GET".to_string(), list),
            _ => ("http://a.example".to_string(), "M".repeat(len), "X-A".to_string()),
        };
        sc.conns.push(Conn::simple(id, id as u32, req(*rng.pick(&["OPTIONS", "OPTIONS", "GET", "HEAD"]), *rng.pick(&["/file.txt", "/", "/missing"]), &[("Origin", &o), ("Access-Control-Request-Method", &m), ("Access-Control-Request-Headers", &h)], b""), "large_reflected_values"));
    }
    sc
}

pub fn plan(tier: Tier, seed: u64) -> Vec<Campaign> {
    let mut v = vec![
        Campaign { name: "reflect_large", budget: match tier { Tier::Quick => Budget::Count(240), Tier::Thorough => Budget::Time(1) }, exhaustive: false, gen: Box::new(move |i| reflect_large(seed, i)) },
        Campaign { name: "short_write_enumeration", budget: Budget::Count(enumeration_size()), exhaustive: true, gen: Box::new(move |i| enumerated(seed, i)) },
        Campaign {
            name: "wellformed_and_reflection",
            budget: match tier {
                Tier::Quick => Budget::Count(4000),
                Tier::Thorough => Budget::Time(2),
            },
            exhaustive: false,
            gen: Box::new(move |i| wellformed(seed, i)),
        },
    ];
    v.push(Campaign {
        name: "write_fault_prefix",
        budget: match tier {
            Tier::Quick => Budget::Count(3000),
            Tier::Thorough => Budget::Time(1),
        },
        exhaustive: false,
        gen: Box::new(move |i| write_faults(seed, i)),
    });
    v.push(Campaign { name: "burst", budget: Budget::Count(match tier { Tier::Quick => 6, Tier::Thorough => 60 }), exhaustive: false, gen: Box::new(move |i| super::c04::burst_for("C05", seed, i)) });
    v.push(Campaign { name: "large_files", budget: Budget::Count(match tier { Tier::Quick => 48, Tier::Thorough => 400 }), exhaustive: false, gen: Box::new(move |i| super::c02::large_scenario("C05", seed, i)) });
    if tier == Tier::Thorough {
        v.push(Campaign { name: "random_multi_split", budget: Budget::Time(2), exhaustive: false, gen: Box::new(move |i| multi_split(seed, i)) });
    }
    v
}
