//! C09 (HEAD / OPTIONS vs GET), C11 (CORS grants vs configuration), C08 (independence of
//! concurrent requests), C13 (no filesystem mutation).

use super::common::*;
use super::*;

const ORIGINS: &[&str] = &["http://a.example", "https://b.example:8443", "http://localhost:3000", "https://app.example.org", "http://x.y"];

pub fn cors_env(rng: &mut crate::util::Rng) -> Vec<(String, String)> {
    let mut env = vec![];
    let on = rng.chance(1, 3);
    env.push(("RWS_CONFIG_CORS_ALLOW_ALL".to_string(), on.to_string()));
    let n = rng.below(5);
    let mut pool: Vec<&str> = ORIGINS.to_vec();
    rng.shuffle(&mut pool);
    let mut chosen: Vec<String> = pool[..n].iter().map(|x| x.to_string()).collect();
    // entries that look like patterns are still just strings: only the exact Origin matches them
    if rng.chance(1, 6) {
        chosen.push(rng.pick(&["https://*.b.example", "http://*.example", "*", "https://*", "http://a.example:*", "https://app.example.org/*"]).to_string());
    }
    env.push(("RWS_CONFIG_CORS_ALLOW_ORIGINS".to_string(), chosen.join(",")));
    let pick_list = |rng: &mut crate::util::Rng, xs: &[&str]| -> String { xs.iter().filter(|_| rng.chance(1, 2)).copied().collect::<Vec<_>>().join(",") };
    env.push(("RWS_CONFIG_CORS_ALLOW_METHODS".to_string(), pick_list(rng, &["GET", "POST", "PUT", "DELETE", "OPTIONS", "HEAD"])));
    env.push(("RWS_CONFIG_CORS_ALLOW_HEADERS".to_string(), pick_list(rng, &["content-type", "x-custom", "authorization", "x-requested-with"])));
    env.push(("RWS_CONFIG_CORS_EXPOSE_HEADERS".to_string(), pick_list(rng, &["content-length", "x-custom", "etag"])));
    // documented values are true / false; anything else (also unset or empty, which is what
    // start-up leaves there by default) must not grant credentials
    match rng.below(8) {
        0..=2 => env.push(("RWS_CONFIG_CORS_ALLOW_CREDENTIALS".to_string(), "true".into())),
        3..=4 => env.push(("RWS_CONFIG_CORS_ALLOW_CREDENTIALS".to_string(), "false".into())),
        5 => env.push(("RWS_CONFIG_CORS_ALLOW_CREDENTIALS".to_string(), String::new())),
        6 => env.push(("RWS_CONFIG_CORS_ALLOW_CREDENTIALS".to_string(), rng.pick(&["yes", "0", "False", "off", "1"]).to_string())),
        _ => {}
    }
    env.push(("RWS_CONFIG_CORS_MAX_AGE".to_string(), rng.pick(&["86400", "600", "0", "5"]).to_string()));
    env
}

pub fn c09_scenario(seed: u64, idx: u64) -> Scenario {
    let mut rng = rng_for(seed, "C09", "triples", idx);
    let mut sc = Scenario::base("C09", "triples", idx);
    sc.engine = if rng.chance(1, 4) { Engine::Legacy } else { Engine::System };
    sc.sched = pick_sched(&mut rng);
    sc.workers = rng.range(1, 3);
    sc.request_size = 10000;
    sc.env = cors_env(&mut rng);
    let nonce = rng.next();
    sc.tree = gen_tree(&mut rng, &TreeOpts { root: "root".into(), max_entries: 8, big_files: false, symlinks: false, request_size: 10000, nonce });
    let mut paths: Vec<String> = tree_paths(&mut rng, &sc.tree).into_iter().filter(|(_, c)| ["file", "html_fallback", "dir_index", "dir_index_slash", "root"].contains(c)).map(|(p, _)| p).collect();
    for b in ["/", "/style.css", "/script.js", "/favicon.svg"] {
        paths.push(b.to_string());
    }
    let groups = rng.range(1, 4);
    let origins = model_origins(&sc.env);
    for _ in 0..groups {
        let p = paths[rng.below(paths.len())].clone();
        let mut hs: Vec<(String, String)> = vec![];
        if rng.chance(1, 2) {
            let o = if !origins.is_empty() && rng.chance(2, 3) { origins[rng.below(origins.len())].clone() } else if rng.chance(1, 2) { rng.pick(super::real::UNUSUAL_ORIGINS).to_string() } else { "http://other.example".to_string() };
            hs.push(("Origin".into(), o));
            if rng.chance(1, 2) {
                hs.push(("Access-Control-Request-Method".into(), rng.pick(&["GET", "POST", "PUT", "DELETE", "PATCH"]).to_string()));
                hs.push(("Access-Control-Request-Headers".into(), rng.pick(&["X-Custom", "content-type", "X-Custom, Content-Type", "x_request_id", "x-amz-meta.owner, authorization", "X-A,X-B,x_c", "x~tilde, x!bang"]).to_string()));
            }
        }
        if rng.chance(1, 4) {
            hs.push(("Range".into(), rng.pick(&["bytes=0-3", "bytes=1-", "bytes=0-1,3-4"]).to_string()));
        }
        // the Host the browser names: unrelated, or the Origin's host on the server's port
        if let Some((_, o)) = hs.iter().find(|(n, _)| n == "Origin").cloned() {
            if rng.chance(1, 2) {
                let host = o.split("://").nth(1).unwrap_or("h").split(':').next().unwrap_or("h").to_string();
                hs.push(("Host".into(), format!("{}:7878", host)));
            }
        }
        // a query that pads the request line of one of the three methods up to a round length: limits
        // that count the method token treat GET, HEAD and OPTIONS differently
        let p = if rng.chance(1, 6) {
            let b = *rng.pick(&[255usize, 256, 512, 1000, 1024, 2000, 2048, 4000, 4096, 8000, 8190, 8192, 9000]);
            let m = *rng.pick(&["GET", "HEAD", "OPTIONS"]);
            let fixed = m.len() + 1 + p.len() + 5 + 9; // "M p?pad= HTTP/1.1"
            let want = (b + rng.below(4)).saturating_sub(1 + rng.below(3));
            if want > fixed + 1 && want < 9500 && !p.contains('?') && !p.contains('#') { format!("{}?pad={}", p, "x".repeat(want - fixed)) } else { p }
        } else {
            p
        };
        // conditional and negotiation headers: whatever they make GET do, HEAD has to do alike
        if rng.chance(1, 3) {
            let (n, v) = *rng.pick(super::real::CONDITIONAL_HEADERS);
            hs.push((n.to_string(), v.to_string()));
        }
        // header lines in any order (the same order in all three requests of the group)
        let mut order_rng = rng.fork();
        order_rng.shuffle(&mut hs);
        let hs2: Vec<(&str, &str)> = hs.iter().map(|(a, b)| (a.as_str(), b.as_str())).collect();
        let gid = sc.conns.len();
        sc.conns.push(Conn::simple(gid, gid as u32, req("GET", &p, &hs2, b""), "get"));
        let mut h = Conn::simple(gid + 1, gid as u32 + 1, req("HEAD", &p, &hs2, b""), "head");
        h.twin = Some(gid);
        sc.conns.push(h);
        let mut o = Conn::simple(gid + 2, gid as u32 + 2, req("OPTIONS", &p, &hs2, b""), "options");
        o.twin = Some(gid);
        sc.conns.push(o);
        // other clients at the same time as each member of the group, with another Origin (configured
        // when the group's is not, and the other way round): what the group gets must not depend on them
        if rng.chance(1, 2) {
            let mine = hs.iter().find(|(n, _)| n == "Origin").map(|(_, v)| v.clone());
            for ph in gid..gid + 3 {
                for k in 0..rng.range(2, 5) {
                    // (every other one comes from the group's own origin: two requests of one origin in
                    // flight next to one of another)
                    let theirs = if k % 2 == 1 && mine.is_some() { mine.clone().unwrap() } else if mine.as_ref().map(|m| origins.contains(m)).unwrap_or(false) || origins.is_empty() { "http://other.example".to_string() } else { origins[rng.below(origins.len())].clone() };
                    let m = *rng.pick(&["GET", "OPTIONS", "HEAD"]);
                    let id = sc.conns.len();
                    sc.conns.push(Conn::simple(id, ph as u32, req(m, &p, &[("Origin", &theirs), ("Access-Control-Request-Method", "GET")], b""), "interferer"));
                }
            }
        }
        // now and then the client comes back and revalidates with what the server gave it
        if rng.chance(1, 4) {
            let g2 = sc.conns.len();
            let mut a = Conn::simple(g2, g2 as u32, req("GET", &p, &hs2, b""), "get_revalidate");
            a.revalidate = Some(gid);
            sc.conns.push(a);
            let mut h = Conn::simple(g2 + 1, g2 as u32 + 1, req("HEAD", &p, &hs2, b""), "head_revalidate");
            h.twin = Some(g2);
            h.revalidate = Some(gid);
            sc.conns.push(h);
        }
    }
    if rng.chance(1, 5) {
        boot_through_start_up(&mut rng, &mut sc, false);
    }
    sc
}

fn model_origins(env: &[(String, String)]) -> Vec<String> {
    env.iter().find(|(k, _)| k == "RWS_CONFIG_CORS_ALLOW_ORIGINS").map(|(_, v)| v.split(',').filter(|x| !x.is_empty()).map(|x| x.to_string()).collect()).unwrap_or_default()
}

pub fn c11_scenario(seed: u64, idx: u64) -> Scenario {
    let mut rng = rng_for(seed, "C11", "cors", idx);
    let mut sc = Scenario::base("C11", "cors", idx);
    sc.engine = Engine::System;
    sc.sched = pick_sched(&mut rng);
    sc.workers = rng.range(1, 3);
    sc.request_size = 10000;
    sc.env = cors_env(&mut rng);
    sc.tree = small_tree(0xC11);
    let origins = model_origins(&sc.env);
    let n = rng.range(2, 8);
    for i in 0..n {
        let origin: Option<String> = match rng.below(14) {
            0 => None,
            1 | 2 | 3 if !origins.is_empty() => Some(origins[rng.below(origins.len())].clone()),
            4 if !origins.is_empty() && origins.iter().all(|o| o.len() >= 4 && o.is_ascii()) => {
                let o = &origins[rng.below(origins.len())];
                Some(o[..rng.range(1, o.len() - 1)].to_string())
            }
            5 if !origins.is_empty() && origins.iter().all(|o| o.len() >= 4 && o.is_ascii()) => {
                let o = &origins[rng.below(origins.len())];
                Some(o[rng.range(1, o.len() - 1)..].to_string())
            }
            6 if !origins.is_empty() && origins.iter().all(|o| o.len() >= 5 && o.is_ascii()) => {
                let o = &origins[rng.below(origins.len())];
                let a = rng.range(1, o.len() - 2);
                Some(o[a..rng.range(a + 1, o.len() - 1)].to_string())
            }
            7 if !origins.is_empty() => Some(origins[rng.below(origins.len())].to_ascii_uppercase()),
            8 => Some(String::new()),
            9 if origins.len() >= 2 => Some(format!("{},{}", origins[0], origins[1])),
            10 => Some(rng.pick(&["http://evil.example", "null", "http://a.example.evil.net", ",", "http", ":", "e", "https://evil.b.example", "http://x.example", "https://anything", "http://a.example:8080", "https://app.example.org/path"]).to_string()),
            11 if !origins.is_empty() => {
                // an origin list: a configured origin next to a foreign one
                let o = &origins[rng.below(origins.len())];
                Some(match rng.below(4) {
                    0 => format!("{} http://evil.example", o),
                    1 => format!("http://evil.example {}", o),
                    2 => format!("{}\thttp://evil.example", o),
                    _ => format!("{} ", o),
                })
            }
            12 if !origins.is_empty() => {
                // a configured origin with something appended: another origin (or none at all)
                let o = &origins[rng.below(origins.len())];
                Some(format!("{}{}", o, rng.pick(&[":80", ":443", ":8080", ".evil.example", "/", "/path", "#", "?", "@evil.example", "%20", ".", "x"])))
            }
            _ => Some(ORIGINS[rng.below(ORIGINS.len())].to_string()),
        };
        let origin = if rng.chance(1, 12) { Some(rng.pick(super::real::UNUSUAL_ORIGINS).to_string()) } else { origin };
        let method = *rng.pick(&["GET", "GET", "OPTIONS", "OPTIONS", "HEAD", "POST", "PUT", "DELETE", "PATCH"]);
        let target = if rng.chance(1, 4) { *rng.pick(&["/.well-known/security.txt", "/.well-known/acme-challenge/x", "/.well-known/openid-configuration", "/robots.txt", "/favicon.ico", "/api/v1/items", "/static/app.js", "/public/x.png", "/assets/app.css", "/fonts/a.woff2", "/manifest.json", "/sitemap.xml", "/health", "/metrics", "/status", "/cdn-cgi/trace", "/graphql", "/oauth/token"]) } else { *rng.pick(&["/file.txt", "/", "/missing", "/page", "/form-get-method?a=1"]) };
        let mut hs: Vec<(String, String)> = vec![];
        // a configured origin in the headers that are *not* Origin (with or without an Origin next to them)
        if !origins.is_empty() && rng.chance(1, 5) {
            let o = origins[rng.below(origins.len())].clone();
            let (n, v) = match rng.below(6) {
                0 => ("Referer", format!("{}/app/index.html", o)),
                1 => ("Referer", format!("{}/", o)),
                2 => ("Host", o.split("://").nth(1).unwrap_or("h").to_string()),
                3 => ("X-Forwarded-Host", o.split("://").nth(1).unwrap_or("h").to_string()),
                4 => ("Forwarded", format!("host={};proto=https", o.split("://").nth(1).unwrap_or("h"))),
                _ => ("X-Origin", o.clone()),
            };
            hs.push((n.into(), v));
        }
        if let Some(o) = origin {
            hs.push(("Origin".into(), o));
        }
        if method == "OPTIONS" && rng.chance(2, 3) {
            let m = if rng.chance(1, 4) { rng.pick(super::real::EXTENSION_METHODS).to_string() } else { rng.pick(&["GET", "POST", "DELETE", "PUT", "PATCH", "HEAD", "OPTIONS"]).to_string() };
            hs.push(("Access-Control-Request-Method".into(), m));
            if rng.chance(1, 2) {
                hs.push(("Access-Control-Request-Headers".into(), rng.pick(&["X-Custom, Content-Type", "authorization", "x-nested", "*", "", "X-A,,X-B", "content-type;q=1"]).to_string()));
            }
        }
        if let Some((_, o)) = hs.iter().find(|(n, _)| n == "Origin").cloned() {
            if rng.chance(1, 3) && o.contains("://") {
                let host = o.split("://").nth(1).unwrap_or("h").split(':').next().unwrap_or("h").to_string();
                hs.push(("Host".into(), format!("{}:7878", host)));
            }
        }
        // two Origin lines (a proxy that adds one, a client library that repeats it): one configured, one not
        if !origins.is_empty() && rng.chance(1, 12) {
            let o = origins[rng.below(origins.len())].clone();
            let other = rng.pick(&["https://evil.example", "http://other.example", "null"]).to_string();
            hs.retain(|(n, _)| n != "Origin");
            if rng.chance(1, 2) {
                hs.push(("Origin".into(), other));
                hs.push(("Origin".into(), o));
            } else {
                hs.push(("Origin".into(), o));
                hs.push(("Origin".into(), other));
            }
        } else {
            rng.shuffle(&mut hs);
        }
        let hs2: Vec<(&str, &str)> = hs.iter().map(|(a, b)| (a.as_str(), b.as_str())).collect();
        let mut bytes = req(method, target, &hs2, b"");
        let mut class = "cors";
        if hs2.iter().all(|(n, _)| *n != "Origin") && rng.chance(1, 2) {
            // a short request without Origin whose head lacks the final blank line
            bytes = format!("{} {} HTTP/1.1\r\nHost: h\r\n", method, target).into_bytes();
            class = "cors_no_origin_unterminated_head";
        }
        let mut c = Conn::simple(i, if rng.chance(1, 2) { 0 } else { i as u32 }, bytes, class);
        // a torn request: the first segment ends inside the Origin value, right behind what could be
        // a configured origin (the server reads once)
        if rng.chance(1, 10) {
            if let Some(pos) = crate::util::find(&c.request.0, b"Origin: ") {
                let val_start = pos + 8;
                let val_end = val_start + crate::util::find(&c.request.0[val_start..], b"\r\n").unwrap_or(0);
                let mut cuts: Vec<usize> = vec![];
                for o in &origins {
                    if c.request.0[val_start..val_end].starts_with(o.as_bytes()) && val_start + o.len() < val_end {
                        cuts.push(val_start + o.len());
                    }
                }
                if val_end > val_start + 1 {
                    cuts.push(rng.range(val_start + 1, val_end - 1));
                }
                let cut = if cuts.is_empty() { 0 } else { *rng.pick(&cuts) };
                let len = c.request.0.len();
                if cut > 0 && cut < len {
                    c.delivery = vec![Seg { len: cut, yields_before: 0 }, Seg { len: len - cut, yields_before: rng.range(1, 6) as u32 }];
                    c.class = "cors_torn_inside_origin".into();
                }
            }
        }
        sc.conns.push(c);
    }
    // a third of the runs: the configuration arrives through the real start-up code (environment,
    // rws.config.toml, command line - with decoys in the sources that lose); half of those with the
    // simulated clock, whose jumps make minutes pass between two connections
    if rng.chance(1, 3) {
        boot_through_start_up(&mut rng, &mut sc, false);
        if rng.chance(1, 2) {
            sc.yields.push("clock".into());
        }
    }
    sc
}

pub fn c08_scenario(seed: u64, idx: u64) -> Scenario {
    let mut rng = rng_for(seed, "C08", "concurrent", idx);
    let mut sc = Scenario::base("C08", "concurrent", idx);
    sc.engine = Engine::System;
    sc.sched = pick_sched(&mut rng);
    sc.workers = *rng.pick(&[1usize, 2, 2, 3, 4, 4, 8, 16]);
    sc.request_size = 10000;
    sc.yields = all_yields();
    // half of the runs: threads are held back right before synchronisation operations (check, then
    // act on shared state under two lock acquisitions: the others get in between)
    if rng.chance(1, 2) {
        sc.yields.push("sync_delay".into());
    }
    if rng.chance(1, 4) {
        sc.env = cors_env(&mut rng);
    }
    let nonce = rng.next();
    let with_links = rng.chance(1, 2);
    sc.tree = gen_tree(&mut rng, &TreeOpts { root: "root".into(), max_entries: 8, big_files: false, symlinks: with_links, request_size: 10000, nonce });
    let mut paths: Vec<String> = tree_paths(&mut rng, &sc.tree).into_iter().map(|(p, _)| p).collect();
    // a few focus paths so that different requests meet on the same resource
    if rng.chance(2, 3) {
        rng.shuffle(&mut paths);
        paths.truncate(rng.range(1, 3));
    }
    // two different symbolic links to files, asked for again and again at the same time (media players
    // fetch a linked file range after range): anything remembered about "the last link" is shared
    let mut links: Vec<String> = sc.tree.entries.iter().filter(|e| matches!(e.kind, EntryKind::Symlink(_)) && !e.path.contains("dirlink")).filter_map(|e| e.path.strip_prefix("root/").map(|r| format!("/{}", r))).collect();
    if links.len() >= 2 && rng.chance(1, 2) {
        rng.shuffle(&mut links);
        links.truncate(2);
        paths = links;
    }
    // a small palette of distinct requests, each issued on one or more connections
    let kinds = rng.range(2, 8);
    let mut palette: Vec<Vec<u8>> = vec![];
    let range_heavy = rng.chance(1, 3);
    for k in 0..kinds {
        let p = paths[rng.below(paths.len())].clone();
        let r = match if range_heavy { *rng.pick(&[0usize, 3, 3, 3, 3]) } else { rng.below(12) } {
            0 | 1 | 2 => get(&p),
            3 => {
                let a = rng.below(40);
                let rv = match rng.below(5) {
                    0 => format!("bytes={}-{}", a, a + rng.below(30)),
                    1 => format!("bytes={}-", a),
                    2 => format!("bytes={}-{},{}-{}", a, a + 3, a + 10, a + 12),
                    3 => format!("bytes=-{}", 1 + rng.below(20)),
                    _ => "bytes=0-0".to_string(),
                };
                req("GET", &p, &[("Range", &rv)], b"")
            }
            4 => req("HEAD", &p, &[], b""),
            5 => req("OPTIONS", &p, &[("Origin", "http://a.example"), ("Access-Control-Request-Method", "GET")], b""),
            6 => get(&format!("/form-get-method?who=conn{}&n={}", k, rng.below(1000))),
            7 => {
                let body = format!("who=conn{}&secret=s{}", k, rng.next() % 100000);
                req("POST", FORM_URLENC, &[("Content-Type", "application/x-www-form-urlencoded"), ("Content-Length", &body.len().to_string())], body.as_bytes())
            }
            8 => {
                let body = format!("--B\r\nContent-Disposition: form-data; name=\"who\"\r\n\r\nconn{}-{}\r\n--B--\r\n", k, rng.next() % 100000);
                req("POST", FORM_MULTIPART, &[("Content-Type", "multipart/form-data; boundary=B"), ("Content-Length", &body.len().to_string())], body.as_bytes())
            }
            9 => get("/definitely-missing"),
            10 => b"BREW / HTTP/1.1\r\n\r\n".to_vec(),
            _ => req("GET", &p, &[("Origin", *rng.pick(&["http://a.example", "http://c.example"]))], b""),
        };
        if !palette.contains(&r) {
            palette.push(r);
        }
    }
    let n = rng.range(2, 24);
    for i in 0..n {
        let r = palette[rng.below(palette.len())].clone();
        let mut c = Conn::simple(i, 0, r, "concurrent");
        // arrival order and overlap: everything is there before accept, but connects are staggered
        let _ = &mut c;
        sc.conns.push(c);
    }
    sc
}

/// far more simultaneous connections than workers (one of them silent for a while): each still gets
/// what it would get alone
pub fn c08_burst(seed: u64, idx: u64) -> Scenario {
    let mut rng = rng_for(seed, "C08", "burst", idx);
    let mut sc = Scenario::base("C08", "burst", idx);
    sc.engine = Engine::System;
    sc.sched = Sched { kind: SchedKind::Random, seed: rng.next(), depth: 0 };
    sc.workers = rng.range(2, 3);
    sc.request_size = 10000;
    sc.tree = small_tree(rng.next());
    let mut stall = Conn::simple(0, 0, get("/file.txt"), "stall");
    stall.client = ClientMode::Stall { then_send: true };
    sc.conns.push(stall);
    let palette = [get("/file.txt"), get("/one.txt"), get("/missing.txt"), req("GET", "/file.txt", &[("Range", "bytes=5-9")], b""), req("HEAD", "/page.html", &[], b"")];
    let n = *rng.pick(&[1030usize, 1100, 2060]);
    for i in 1..=n {
        sc.conns.push(Conn::simple(i, 0, palette[rng.below(palette.len())].clone(), "concurrent"));
    }
    sc
}

fn upload_shaped(rng: &mut crate::util::Rng) -> Vec<u8> {
    let names = ["file.txt", "new.txt", "d/new.txt", "../outside.txt", "../../o.txt", "/tmp/rws-upload-attempt.txt", "probe.txt", "d/index.html"];
    let name = *rng.pick(&names);
    match rng.below(8) {
        0 => {
            let body = format!("--B\r\nContent-Disposition: form-data; name=\"file\"; filename=\"{}\"\r\nContent-Type: text/plain\r\n\r\nuploaded content\r\n--B--\r\n", name);
            req("POST", FORM_MULTIPART, &[("Content-Type", "multipart/form-data; boundary=B"), ("Content-Length", &body.len().to_string())], body.as_bytes())
        }
        1 => req("POST", &format!("{}?name={}&size=16&lastModified=1700000000", FILE_UPLOAD, name), &[("Content-Type", "application/octet-stream"), ("Content-Length", "16")], b"uploaded content"),
        2 => req("PUT", &format!("/{}", name.trim_start_matches('/')), &[("Content-Type", "text/plain"), ("Content-Length", "16")], b"uploaded content"),
        3 => req("DELETE", &format!("/{}", name.trim_start_matches('/')), &[], b""),
        4 => req("PATCH", &format!("/{}", name.trim_start_matches('/')), &[("Content-Length", "5")], b"patch"),
        5 => req("POST", &format!("/{}", name.trim_start_matches('/')), &[("Content-Type", "text/plain"), ("Content-Length", "16")], b"uploaded content"),
        6 => {
            let body = format!("name={}&content=uploaded", name);
            req("POST", FORM_URLENC, &[("Content-Type", "application/x-www-form-urlencoded"), ("Content-Length", &body.len().to_string())], body.as_bytes())
        }
        _ => {
            let m = *rng.pick(&["GET", "HEAD", "POST", "PUT", "DELETE", "CONNECT", "OPTIONS", "TRACE", "PATCH"]);
            req(m, &format!("/{}", name.trim_start_matches('/')), &[("Content-Length", "3")], b"abc")
        }
    }
}

pub fn c13_scenario(seed: u64, idx: u64) -> Scenario {
    let mut rng = rng_for(seed, "C13", "mutation_attempts", idx);
    let mut sc = Scenario::base("C13", "mutation_attempts", idx);
    sc.engine = if rng.chance(1, 5) { Engine::Legacy } else { Engine::System };
    sc.sched = pick_sched(&mut rng);
    sc.workers = rng.range(1, 3);
    sc.request_size = pick_buffer(&mut rng).max(1024);
    // a tree with ancestor and sibling sentinels: nothing anywhere may change
    let mut t = small_tree(0xC13);
    t.mtime_mode = 0;
    // the served directory's own name may contain what file-ext refuses in paths (then nothing is
    // served, but nothing may be written either)
    let rootname = if rng.chance(1, 6) { *rng.pick(&["my site", "a&b", "it's", "semi;colon"]) } else { "root" };
    t.root = format!("outer/{}", rootname);
    for e in t.entries.iter_mut() {
        e.path = format!("outer/{}/{}", rootname, e.path.strip_prefix("root/").unwrap_or(&e.path));
    }
    t.entries.push(Entry { path: "outer/sentinel.txt".into(), kind: EntryKind::File(Content::Literal("sentinel\n".into())) });
    t.entries.push(Entry { path: "sibling/sentinel.txt".into(), kind: EntryKind::File(Content::Literal("sentinel\n".into())) });
    t.entries.push(Entry { path: format!("outer/{}/emptydir", rootname), kind: EntryKind::Dir });
    // symbolic links of every shape an owner may place: to files, to directories, relative with
    // '..', through another link, dangling, leaving the root
    t.entries.push(Entry { path: format!("outer/{}/real/target.txt", rootname), kind: EntryKind::File(Content::Literal("target\n".into())) });
    t.entries.push(Entry { path: format!("outer/{}/real/sub/alias.txt", rootname), kind: EntryKind::Symlink("../target.txt".into()) });
    t.entries.push(Entry { path: format!("outer/{}/real/sub/index.html", rootname), kind: EntryKind::File(Content::Literal("<p>sub</p>\n".into())) });
    t.entries.push(Entry { path: format!("outer/{}/shortcut", rootname), kind: EntryKind::Symlink("real/sub".into()) });
    t.entries.push(Entry { path: format!("outer/{}/ln.txt", rootname), kind: EntryKind::Symlink("file.txt".into()) });
    t.entries.push(Entry { path: format!("outer/{}/ln2.txt", rootname), kind: EntryKind::Symlink("./ln.txt".into()) });
    t.entries.push(Entry { path: format!("outer/{}/dangling.txt", rootname), kind: EntryKind::Symlink("nowhere.txt".into()) });
    t.entries.push(Entry { path: format!("outer/{}/dangling-up.txt", rootname), kind: EntryKind::Symlink("../../nowhere/x.txt".into()) });
    t.entries.push(Entry { path: format!("outer/{}/out.txt", rootname), kind: EntryKind::Symlink("../sentinel.txt".into()) });
    t.entries.push(Entry { path: format!("outer/{}/slashes.txt", rootname), kind: EntryKind::Symlink("real//target.txt".into()) });
    // what owners and tools leave in a served directory: partial downloads, backups, text files with
    // a byte order mark, compressed siblings, dot files
    let r = format!("outer/{}", rootname);
    for (name, c) in [
        ("large.bin", Content::Sparse { len: (1 << 20) + 17, seed: 5 }),
        ("legacy/index.htm", Content::Literal("<p>index of another era</p>\n".into())),
        ("legacy/about.htm", Content::Literal("<p>about</p>\n".into())),
        ("php/index.php", Content::Literal("<?php phpinfo();\n".into())),
        ("txt/README.md", Content::Literal("# readme\n".into())),
        ("def/default.html", Content::Literal("<p>default</p>\n".into())),
        ("download.iso.part", Content::Gen { marker: String::new(), len: 4000, seed: 7, binary: true }),
        ("file.txt.part", Content::Gen { marker: String::new(), len: 120, seed: 8, binary: true }),
        ("d/video.mp4.part", Content::Gen { marker: String::new(), len: 700, seed: 9, binary: true }),
        ("settings.json", super::real::magic_content(&mut rng, Some("bom8"))),
        ("readme.txt", super::real::magic_content(&mut rng, Some("bom8txt"))),
        ("d/start.html", super::real::magic_content(&mut rng, Some("bom8txt"))),
        ("feed.xml", super::real::magic_content(&mut rng, Some("bom16le"))),
        ("page.html.bak", Content::Literal("old page\n".into())),
        ("notes.txt~", Content::Literal("editor backup\n".into())),
        (".htaccess", Content::Literal("Deny from all\n".into())),
        ("rws.config.toml", Content::Literal("[cors]\nallow_all = true\n".into())),
    ] {
        t.entries.push(Entry { path: format!("{}/{}", r, name), kind: EntryKind::File(c) });
    }
    let all_files: Vec<String> = t.entries.iter().filter(|e| matches!(e.kind, EntryKind::File(_)) && e.path.starts_with(&format!("{}/", r))).map(|e| format!("/{}", &e.path[r.len() + 1..])).collect();
    sc.tree = t;
    let n = rng.range(1, 6);
    // now and then the owner takes the served directory (or a part of it) away between two connections
    let owner_acts = rng.chance(1, 10);
    for i in 0..n {
        let (class, bytes) = match rng.below(13) {
            10 => {
                // any file of the tree, any reading method, now and then with headers a cache or browser adds
                let p = rng.pick(&all_files).clone();
                let m = *rng.pick(&["GET", "GET", "HEAD", "OPTIONS"]);
                let b = req(m, &p, &[], b"");
                ("read_any_file", if rng.chance(1, 3) { super::real::decorate_real(&mut rng, &b, false) } else { b })
            }
            11 | 12 => {
                // upload announcements that name what is (almost) there already, with sizes around the real ones
                let name = *rng.pick(&["download.iso", "file.txt", "d/video.mp4", "video.mp4", "download.iso.part", "settings.json", "page.html", "notes.txt", "probe.txt", "readme.txt", ".htaccess", "rws.config.toml"]);
                let size = *rng.pick(&["0", "1", "10", "119", "120", "121", "699", "700", "3999", "4000", "4001", "999999999", "-1", "", "x"]);
                let target = format!("{}?name={}&size={}&lastModified={}", FILE_UPLOAD, name.replace('/', "%2F"), size, rng.pick(&["1700000000", "0", "1", "x"]));
                ("upload_announcement", req(*rng.pick(&["POST", "POST", "GET", "PUT"]), &target, &[("Content-Length", "0")], b""))
            }
            0..=4 => ("upload_shaped", upload_shaped(&mut rng)),
            7 => {
                // companion-file conventions: an existing path plus a well-known suffix
                let base = *rng.pick(&["/file.txt", "/page.html", "/big.bin", "/d/index.html", "/probe.txt", "/one.txt"]);
                let suffix = *rng.pick(&[".base64", ".gz", ".br", ".zst", ".map", ".sha256", ".md5", ".sig", ".asc", ".torrent", ".bak", ".orig", ".tmp", ".part", ".json", ".meta", "~", ".swp", ".lock", ".thumb", ".webp", ".min.js", ".b64", ".hex", ".zip"]);
                ("suffix_probe", req(*rng.pick(&["GET", "HEAD"]), &format!("{}{}", base, suffix), &[], b""))
            }
            5 | 6 => {
                let p = *rng.pick(&["/legacy/", "/legacy", "/php/", "/txt/", "/def/", "/def", "/shortcut/alias.txt", "/shortcut/", "/shortcut", "/real/sub/alias.txt", "/ln.txt", "/ln2.txt", "/dangling.txt", "/dangling-up.txt", "/out.txt", "/slashes.txt", "/emptydir/", "/emptydir"]);
                let m = *rng.pick(&["GET", "GET", "HEAD", "OPTIONS", "POST"]);
                if rng.chance(1, 3) { ("symlink_path", req(m, p, &[("Range", *rng.pick(&["bytes=0-2", "bytes=1-", "bytes=0-1,3-4", "bytes=-2"]))], b"")) } else { ("symlink_path", req(m, p, &[], b"")) }
            }
            _ => mutated_request(&mut rng, "/file.txt", sc.request_size as usize),
        };
        let mut c = Conn::simple(i, i as u32, if bytes.is_empty() { b"G".to_vec() } else { bytes }, class);
        if rng.chance(1, 6) {
            transport_fault(&mut rng, &mut c, &["seg", "read_err", "short_write", "write_err", "client_gone", "handler_err"]);
        }
        sc.conns.push(c);
    }
    if owner_acts && n >= 2 {
        let (kind, path) = match rng.below(5) {
            0 | 1 => ("remove_tree", r.clone()),
            2 => ("replace_with_empty_dir", r.clone()),
            3 => ("remove_tree", "outer".to_string()),
            _ => ("remove_file", format!("{}/file.txt", r)),
        };
        sc.owner_ops.push(OwnerOp { before_phase: rng.range(1, n - 1) as u32, kind: kind.into(), path });
    }
    // platform facts: files with the modes deployments have (group- and world-writable among them),
    // a standard output that has gone away (closed pipe, full volume: code that falls back to a log
    // *file* then writes into the tree), a short docroot path, a server user who owns nothing
    if rng.chance(1, 4) {
        sc.tree.meta_mode = rng.range(1, 3) as u8;
    }
    if rng.chance(1, 5) {
        sc.yields.push("stdout_gone".into());
    }
    if rng.chance(1, 8) {
        sc.yields.push("short_docroot".into());
    }
    if rng.chance(1, 8) {
        sc.yields.push("other_user".into());
    }
    sc
}

pub fn plan(prop: &'static str, tier: Tier, seed: u64) -> Vec<Campaign> {
    let (name, quick): (&'static str, u64) = match prop {
        "C09" => ("triples", 3000),
        "C11" => ("cors", 6000),
        "C08" => ("concurrent", 3000),
        _ => ("mutation_attempts", 4000),
    };
    let mut v = vec![Campaign {
        name,
        budget: match tier { Tier::Quick => Budget::Count(quick), Tier::Thorough => Budget::Time(1) },
        exhaustive: false,
        gen: Box::new(move |i| match prop {
            "C09" => c09_scenario(seed, i),
            "C11" => c11_scenario(seed, i),
            "C08" => c08_scenario(seed, i),
            _ => c13_scenario(seed, i),
        }),
    }];
    if prop == "C08" {
        v.push(Campaign { name: "burst", budget: Budget::Count(match tier { Tier::Quick => 6, Tier::Thorough => 40 }), exhaustive: false, gen: Box::new(move |i| c08_burst(seed, i)) });
    }
    if prop == "C09" {
        v.push(Campaign { name: "large_files", budget: Budget::Count(match tier { Tier::Quick => 32, Tier::Thorough => 300 }), exhaustive: false, gen: Box::new(move |i| super::c02::large_scenario("C09", seed, i)) });
    }
    v
}
