//! The "header x resource x method" matrix: an exhaustively enumerated campaign. Rare header values
//! and rare kinds of files meet only by accident in the random campaigns (a request header that a
//! feature reads, for a file large enough / named / shaped so that the feature acts on it); here
//! every pair occurs once per method, on one fixed tree that holds one file of every kind.

use super::common::*;
use super::real::*;
use super::*;

fn lit(name: &str, b: &[u8]) -> Entry {
    Entry { path: format!("root/{}", name), kind: EntryKind::File(Content::Literal(b.to_vec().into())) }
}

pub fn tree(prop: &str) -> TreeSpec {
    let mut t = small_tree(0x3A7);
    t.mtime_mode = 0;
    let gen = |name: &str, len: usize, binary: bool, k: u64| Entry { path: format!("root/{}", name), kind: EntryKind::File(Content::Gen { marker: String::new(), len, seed: 0x3A7 + k, binary }) };
    t.entries.extend(vec![
        lit("bom.json", b"\xef\xbb\xbf{\"setting\": true}\n"),
        lit("bom.txt", b"\xef\xbb\xbfplain text after a byte order mark\n"),
        lit("onlybom16.txt", b"\xff\xfe"),
        lit("crlf.csv", b"a,b\r\n1,2\r\n3,4\r\n"),
        lit("plain-without-extension", b"nothing in particular\n"),
        lit("other.bin", b"\x01\x02\x03 nothing in particular"),
        lit("image-without-extension", b"\x89PNG\r\n\x1a\n\0\0\0\rIHDR\0\0\0\x01\0\0\0\x01\x08\x06rest"),
        lit("signature.bin", b"GIF89a\x01\0\x01\0\x80\0\0rest"),
        lit("doc.pdf", b"%PDF-1.7\n%\xe2\xe3\xcf\xd3\nrest of the document"),
        lit("photo.jpg", b"\xff\xd8\xff\xe0\0\x10JFIF\0\x01\x01rest"),
        lit("file.txt.part", b"partial"),
        lit("file.txt.bak", b"backup"),
        lit("app.3f9a1c0b.js", b"console.log(1)\n"),
        lit("main.d52a326aad007bd1.css", b"body{}\n"),
        lit("image@2x.png", b"\x89PNG\r\n\x1a\nrest"),
        lit("favicon.ico", b"\0\0\x01\0\x01\0\x10\x10"),
        lit(".htaccess", b"Deny from all\n"),
        lit(".well-known/security.txt", b"Contact: mailto:security@example.org\n"),
        lit(".well-known/acme-challenge/tok-1", b"tok-1.thumbprint"),
        lit("d/rws.config.toml", b"[cors]\nallow_all = false\nallow_origins = [\"https://evil.example\"]\n"),
        lit("sub/dir/index.html", b"<p>nested index</p>\n"),
        lit("sub/page.html", b"<p>nested page</p>\n"),
        lit("\u{434}\u{43e}\u{43a}/\u{444}\u{430}\u{439}\u{43b}.txt", b"non-ascii path\n"),
        gen("medium.bin", 70_000, true, 1),
        Entry { path: "root/medium.bin.gz".into(), kind: EntryKind::File(Content::GzipOf(Box::new(Content::Gen { marker: String::new(), len: 70_000, seed: 0x3A7 + 1, binary: true }))) },
        Entry { path: "root/crlf.csv.gz".into(), kind: EntryKind::File(Content::GzipOf(Box::new(Content::Literal(b"a,b\r\n1,2\r\n3,4\r\n".to_vec().into())))) },
        lit("legacy/index.htm", b"<p>an index page of another era</p>\n"),
        lit("legacy/about.htm", b"<p>about</p>\n"),
        lit("meta.html", b"<!DOCTYPE html>\n<html>\n<head>\n<meta\n    charset=utf-8\n>\n<meta http-equiv=\"refresh\" content=\"5; url=http://other.example/\">\n<title>x</title>\n</head>\n<body>x</body>\n</html>\n"),
        lit("decl.xml", b"<?xml version=\"1.0\" encoding=\"ISO-8859-1\"?>\n<a/>\n"),
        lit("charset.css", b"@charset \"utf-8\";\nbody{}\n"),
        lit("mapped.js", b"console.log(1)\n//# sourceMappingURL=mapped.js.map\n"),
        Entry { path: "root/large.bin".into(), kind: EntryKind::File(Content::Sparse { len: (1 << 20) + 17, seed: 0x3A7 }) },
        Entry { path: "root/larger.bin".into(), kind: EntryKind::File(Content::Sparse { len: (8 << 20) + 1, seed: 0x3A8 }) },
        Entry { path: "root/sub/up.txt".into(), kind: EntryKind::Symlink("../file.txt".into()) },
        Entry { path: "root/ln.txt".into(), kind: EntryKind::Symlink("file.txt".into()) },
    ]);
    if prop == "C13" {
        // (the before / after manifest of C13 reads every file twice per run)
        t.entries.retain(|e| e.path != "root/larger.bin");
    }
    t
}

pub const PATHS: &[&str] = &[
    "/file.txt", "/page.html", "/page", "/d/", "/d", "/big.bin", "/empty.txt", "/one.txt", "/missing.txt", "/", "/style.css",
    "/bom.json", "/bom.txt", "/onlybom16.txt", "/crlf.csv", "/image-without-extension", "/signature.bin", "/doc.pdf", "/photo.jpg", "/file.txt.part", "/file.txt.bak", "/file.txt.gz",
    "/app.3f9a1c0b.js", "/main.d52a326aad007bd1.css", "/image@2x.png", "/favicon.ico", "/.htaccess", "/.well-known/security.txt", "/.well-known/acme-challenge/tok-1",
    "/d/rws.config.toml", "/sub/dir/", "/sub/page", "/\u{434}\u{43e}\u{43a}/\u{444}\u{430}\u{439}\u{43b}.txt", "/medium.bin", "/crlf.csv", "/legacy/", "/legacy", "/legacy/index.htm", "/meta.html", "/decl.xml", "/charset.css", "/mapped.js", "/large.bin", "/larger.bin", "/sub/up.txt", "/ln.txt",
    "/form-get-method?a=1", "/file.txt?download=1&filename=x.txt", "/d/index.html#top",
];

/// headers of the matrix: negotiation and conditional headers, digests, ranges, client hints
pub fn headers(conditional: bool) -> Vec<(&'static str, &'static str)> {
    let mut v: Vec<(&str, &str)> = vec![("X-None", "-")];
    v.extend_from_slice(CONDITIONAL_HEADERS);
    v.extend_from_slice(&[
        ("Want-Digest", "sha-256"), ("Want-Digest", "md5;q=0.3, sha-512;q=1"), ("Want-Repr-Digest", "sha-256=10"), ("Accept-Encoding", "gzip;"), ("Accept-Encoding", "zstd, br"), ("Accept-Encoding", "deflate"),
        ("Range", "bytes=0-"), ("Range", "bytes=0-0"), ("Range", "bytes=-1"), ("Range", "bytes=0-3, 5-9"), ("Range", "bytes=1048576-"), ("TE", "trailers, gzip"), ("Accept", "text/html"), ("Accept", "image/avif,image/webp"),
        ("Accept-Language", "fr-CH, fr;q=0.9"), ("Accept-Charset", "utf-16"), ("Origin", "http://a.example"), ("Origin", "null"), ("Referer", "http://a.example/app/"), ("Cookie", "session=abc"), ("Authorization", "Basic dXNlcjpwYXNz"),
        ("User-Agent", "Googlebot/2.1 (+http://www.google.com/bot.html)"), ("User-Agent", "curl/8.0"), ("Sec-Fetch-Dest", "document"), ("Sec-Fetch-Mode", "no-cors"), ("Upgrade-Insecure-Requests", "1"), ("DNT", "1"), ("Sec-GPC", "1"),
        ("Save-Data", "on"), ("Downlink", "0.1"), ("Viewport-Width", "320"), ("X-Forwarded-Proto", "https"), ("X-Forwarded-For", "203.0.113.7"), ("Forwarded", "for=192.0.2.60;proto=https;host=a.example"), ("Via", "1.1 cache"),
        ("Connection", "keep-alive"), ("Connection", "close"), ("Expect", "100-continue"), ("Max-Forwards", "0"), ("X-Http-Method-Override", "DELETE"), ("X-Original-URL", "/admin"), ("Content-Length", "0"), ("Content-Type", "application/json"),
        ("Pragma", "no-cache"), ("Priority", "u=0"), ("Early-Data", "1"), ("Accept-Datetime", "Thu, 31 May 2007 20:35:00 GMT"), ("Service-Worker", "script"), ("Last-Event-ID", "7"),
    ]);
    v.extend_from_slice(SWITCH_HEADERS);
    v.extend_from_slice(FETCH_BUNDLES);
    // a few half-written values for the headers servers log or trust
    v.extend_from_slice(&[("X-Forwarded-For", "[2001:db8::7"), ("X-Forwarded-For", "203.0.113.7, [::1"), ("Forwarded", "for=\"[2001:db8::7"), ("X-Real-IP", "[::1"), ("Host", "[::1"), ("Referer", "http://[::1"), ("Origin", "http://[::1"), ("User-Agent", ""), ("Cookie", ";"), ("Authorization", "Basic"), ("Accept-Language", "en;q"), ("Accept", "text/html;q")]);
    if !conditional {
        v.retain(|(n, _)| !n.starts_with("If-") && *n != "Range" && *n != "Cache-Control" && *n != "Expect" && *n != "Content-Length");
    }
    v
}

pub fn methods(prop: &str) -> &'static [&'static str] {
    match prop {
        "C02" => &["GET"],
        "C09" => &["GET"],
        _ => &["GET", "HEAD", "OPTIONS"],
    }
}

pub fn size(prop: &str) -> u64 {
    (PATHS.len() * headers(prop != "C02").len() * methods(prop).len()) as u64
}

pub fn scenario(prop: &'static str, seed: u64, idx: u64) -> Scenario {
    let mut rng = rng_for(seed, prop, "matrix", idx);
    let mut sc = Scenario::base(prop, "matrix", idx);
    sc.engine = Engine::System;
    sc.sched = pick_sched(&mut rng);
    sc.workers = rng.range(1, 2);
    sc.request_size = 10000;
    sc.yields = pick_yields(&mut rng);
    sc.tree = tree(prop);
    // (odd indices: reversed modification times, so that a file is newer than its compressed sibling)
    if idx % 2 == 1 {
        sc.tree.mtime_mode = 7;
    }
    if idx % 4 >= 2 {
        sc.tree.meta_mode = 1 + ((idx / 4) % 3) as u8;
    }
    let hs = headers(prop != "C02");
    let ms = methods(prop);
    let i = idx as usize;
    let m = ms[i % ms.len()];
    let (hn, hv) = hs[(i / ms.len()) % hs.len()];
    let p = PATHS[(i / ms.len() / hs.len()) % PATHS.len()];
    // (the form demo endpoint is neither a file of the tree nor a built-in page: outside C02 / C09)
    let p = if (prop == "C02" || prop == "C09") && p.starts_with("/form-") { "/file.txt" } else { p };
    let h: Vec<(&str, &str)> = if hn == "X-None" { vec![] } else { vec![(hn, hv)] };
    if prop == "C09" {
        sc.conns.push(Conn::simple(0, 0, req("GET", p, &h, b""), "get"));
        let mut a = Conn::simple(1, 1, req("HEAD", p, &h, b""), "head");
        a.twin = Some(0);
        sc.conns.push(a);
        let mut b = Conn::simple(2, 2, req("OPTIONS", p, &h, b""), "options");
        b.twin = Some(0);
        sc.conns.push(b);
    } else {
        sc.conns.push(Conn::simple(0, 0, req(m, p, &h, b""), "matrix"));
        if prop == "C02" {
            // a plain file of the same (absent or unregistered) extension in the same run: "same
            // extension, same media type" has something to compare with
            let name = p.rsplit('/').next().unwrap_or("");
            if !name.contains('.') {
                sc.conns.push(Conn::simple(1, 1, get("/plain-without-extension"), "matrix_peer"));
            } else if name.ends_with(".bin") {
                sc.conns.push(Conn::simple(1, 1, get("/other.bin"), "matrix_peer"));
            }
        }
        if prop == "C04" || prop == "C06" {
            sc.probe = Probe::FollowUp { request: probe_request().into() };
        }
    }
    sc
}

pub fn campaign(prop: &'static str, seed: u64) -> Campaign {
    Campaign { name: "matrix", budget: Budget::Count(size(prop)), exhaustive: true, gen: Box::new(move |i| scenario(prop, seed, i)) }
}
