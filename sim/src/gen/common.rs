//! Shared generator pieces: document trees, request construction, the mutation grammar, fault
//! scripts, swarm configuration.

use crate::scenario::*;
use crate::util::Rng;

pub const FORM_GET: &str = "/form-get-method";
pub const FORM_URLENC: &str = "/form-url-encoded-enctype-post-method";
pub const FORM_MULTIPART: &str = "/form-multipart-enctype-post-method";
pub const FILE_UPLOAD: &str = "/file-upload/initiate";

pub fn req(method: &str, target: &str, headers: &[(&str, &str)], body: &[u8]) -> Vec<u8> {
    let mut v = format!("{} {} HTTP/1.1\r\n", method, target).into_bytes();
    let mut has_host = false;
    for (n, val) in headers {
        if n.eq_ignore_ascii_case("host") {
            has_host = true;
        }
        v.extend_from_slice(format!("{}: {}\r\n", n, val).as_bytes());
    }
    if !has_host {
        v.extend_from_slice(b"Host: localhost\r\n");
    }
    v.extend_from_slice(b"\r\n");
    v.extend_from_slice(body);
    v
}

pub fn get(target: &str) -> Vec<u8> {
    req("GET", target, &[], b"")
}

pub fn buffer_sizes() -> &'static [i64] {
    // (4000 and 1024 are constants of the code under test: upload chunk arithmetic, buffer minimum)
    &[64, 256, 1023, 1024, 1025, 3999, 4000, 4001, 4096, 8192, 9999, 10000, 10000, 10000, 10001, 12000, 16000, 32768, 65536]
}

pub fn pick_buffer(rng: &mut Rng) -> i64 {
    *rng.pick(buffer_sizes())
}

pub fn all_yields() -> Vec<String> {
    vec!["process.after_parse".into(), "process.after_execute".into(), "app.static_matched".into(), "file_io".into(), "clock".into(), "env".into()]
}

/// random subset of the stage yield points ("buggify": a random subset of sites per run)
pub fn pick_yields(rng: &mut Rng) -> Vec<String> {
    let mut v: Vec<String> = all_yields().into_iter().filter(|_| rng.chance(1, 2)).collect();
    // platform knobs (not yield points; same list because they are per-run switches of the world):
    // a short absolute path for the served directory, another user than the files' owner
    if rng.chance(1, 4) {
        v.push("short_docroot".into());
    }
    if rng.chance(1, 6) {
        v.push("other_user".into());
    }
    // scheduler knob: threads held back right before synchronisation operations
    if rng.chance(1, 6) {
        v.push("sync_delay".into());
    }
    v
}

// ------------------------------------------------------------------------------------------ trees

pub struct TreeOpts {
    pub root: String,
    pub max_entries: usize,
    pub big_files: bool,
    pub symlinks: bool,
    pub request_size: i64,
    pub nonce: u64,
}

pub fn marker(nonce: u64, k: usize) -> String {
    format!("MARK-{:08x}-{}-", nonce as u32, k)
}

const FILE_NAMES: &[&str] = &[
    "a.txt", "b.txt", "page.html", "about.html", "data.json", "img.png", "photo.jpg", "app.js", "site.css", "doc.pdf", "noext", "archive.tar.gz",
    "x.y.z.txt", "page.html.gz", "app.js.map", "notes.txt.pdf", "data.json.bak", "photo.png.txt", "\u{fc}n\u{ef}.txt", "\u{434}\u{43e}\u{43a}.html", "table.csv", "icon.svg", "notes.md", "UPPER.TXT", "a-b_c.txt", "v1.2.html",
    // characters that mean something in URLs, forms or shells but are plain characters in a file name
    "a+b.txt", "c++.html", "report%20final.pdf", "100%.txt", "eq=uals.txt", "at@sign.txt", "tilde~file.txt", "comma,name.txt", "(paren).txt", "[bracket].txt", "dollar$.txt", "excl!.txt", "colon:name.txt", "%41.txt", "x%2Fy.txt", "plus+plus+.html",
];
const DIR_NAMES: &[&str] = &["d1", "d2", "docs", "img", "sub", "\u{43f}\u{430}\u{43f}\u{43a}\u{430}", "a.b", "c++", "50%", "legacy"];

pub fn pick_size(rng: &mut Rng, big: bool, request_size: i64) -> usize {
    let rs = request_size.max(1) as usize;
    // now and then a really large file: around 1 MiB, above 8 MiB and above 16 MiB
    if big && rng.chance(1, 12) {
        return *rng.pick(&[(1usize << 20) - 1, (1 << 20) + 1, (8 << 20) + 1000, (16 << 20) + 1]);
    }
    match rng.below(if big { 16 } else { 10 }) {
        0 => 0,
        1 => 1,
        2 => rng.range(2, 3),
        3 => 255,
        4..=7 => rng.range(20, 600),
        8 => rng.range(600, 3000),
        9 => rs - 1 + rng.below(3),
        10 => 8191 + rng.below(3),
        11 => 65535 + rng.below(3),
        12 => rng.range(3000, 20000),
        13 => rng.range(20000, 262144),
        _ => rng.range(1, 2000),
    }
}

/// A document tree under `opts.root`. Every file starts with a unique marker (files shorter
/// than their marker are exactly the short sizes 0..3 and carry none).
pub fn gen_tree(rng: &mut Rng, opts: &TreeOpts) -> TreeSpec {
    let mut entries: Vec<Entry> = vec![];
    let root = opts.root.clone();
    let mut dirs: Vec<String> = vec![root.clone()];
    let ndirs = rng.below(5);
    for _ in 0..ndirs {
        let parent = rng.pick(&dirs).clone();
        if parent.matches('/').count() >= root.matches('/').count() + 4 {
            continue;
        }
        let name = if rng.chance(1, 4) { *rng.pick(&["page", "about", "v1.2"]) } else { *rng.pick(DIR_NAMES) };
        let p = format!("{}/{}", parent, name);
        if dirs.contains(&p) {
            continue;
        }
        entries.push(Entry { path: p.clone(), kind: EntryKind::Dir });
        dirs.push(p);
    }
    let nfiles = rng.range(2, opts.max_entries.max(3));
    let mut k = 0usize;
    let mut used: Vec<String> = dirs.clone();
    for _ in 0..nfiles {
        let dir = rng.pick(&dirs).clone();
        let name = if rng.chance(1, 5) { "index.html" } else { *rng.pick(FILE_NAMES) };
        let p = format!("{}/{}", dir, name);
        // exclusions of DESIGN 4.1: nothing next to a directory of the same stem, no duplicates
        // (a directory next to <name>.html is allowed: the model knows which of the two cases
        // the documentation decides)
        if used.contains(&p) {
            continue;
        }
        let len = pick_size(rng, opts.big_files, opts.request_size);
        let m = marker(opts.nonce, k);
        k += 1;
        let binary = name.ends_with(".png") || name.ends_with(".jpg") || name.ends_with(".pdf") || name.ends_with(".gz") || rng.chance(1, 8);
        let content = if len < m.len() + 1 {
            Content::Gen { marker: String::new(), len, seed: rng.next(), binary }
        } else {
            Content::Gen { marker: format!("{}\n", m), len, seed: rng.next(), binary }
        };
        entries.push(Entry { path: p.clone(), kind: EntryKind::File(content) });
        used.push(p);
    }
    // rare shapes: a directory called index.html, a link loop, a link to itself, a deep chain
    if rng.chance(1, 6) {
        let d = rng.pick(&dirs).clone();
        let p = format!("{}/index.html", d);
        if !used.contains(&p) && rng.chance(1, 2) {
            entries.push(Entry { path: p.clone(), kind: EntryKind::Dir });
            used.push(p);
        }
        if opts.symlinks {
            for (name, target) in [("loop-a", "loop-b"), ("loop-b", "loop-a"), ("selfie", "selfie")] {
                let p = format!("{}/{}", root, name);
                if !used.contains(&p) {
                    entries.push(Entry { path: p.clone(), kind: EntryKind::Symlink(target.to_string()) });
                    used.push(p);
                }
            }
        }
    }
    if rng.chance(1, 8) {
        let mut p = root.clone();
        for k in 0..rng.range(5, 9) {
            p = format!("{}/n{}", p, k);
        }
        let f = format!("{}/deep.txt", p);
        if !used.contains(&f) {
            entries.push(Entry { path: f.clone(), kind: EntryKind::File(Content::Gen { marker: format!("{}\n", marker(opts.nonce, 900)), len: 60, seed: 9, binary: false }) });
            used.push(f);
        }
    }
    if opts.symlinks {
        let files: Vec<String> = entries.iter().filter(|e| matches!(e.kind, EntryKind::File(_))).map(|e| e.path.clone()).collect();
        let n = rng.below(3);
        for i in 0..n {
            if files.is_empty() {
                break;
            }
            let t = rng.pick(&files).clone();
            let tname = t.rsplit('/').next().unwrap().to_string();
            let ext = tname.rfind('.').map(|i| tname[i..].to_string()).unwrap_or_default();
            // link lives in the root, same extension as its target (DESIGN 4.1 exclusion)
            let lp = format!("{}/link{}{}", root, i, ext);
            if used.contains(&lp) {
                continue;
            }
            let rel = t.strip_prefix(&format!("{}/", root)).unwrap_or(&t).to_string();
            entries.push(Entry { path: lp.clone(), kind: EntryKind::Symlink(rel) });
            used.push(lp);
        }
        // links inside sub-directories whose relative target goes up and over to another file
        if dirs.len() > 1 && !files.is_empty() {
            for i in 0..rng.below(3) {
                let d = dirs[1 + rng.below(dirs.len() - 1)].clone();
                let t = rng.pick(&files).clone();
                let tname = t.rsplit('/').next().unwrap().to_string();
                let ext = tname.rfind('.').map(|i| tname[i..].to_string()).unwrap_or_default();
                let lp = format!("{}/rel{}{}", d, i, ext);
                if used.contains(&lp) {
                    continue;
                }
                let depth = d.matches('/').count() - root.matches('/').count();
                let rel = t.strip_prefix(&format!("{}/", root)).unwrap_or(&t).to_string();
                entries.push(Entry { path: lp.clone(), kind: EntryKind::Symlink(format!("{}{}", "../".repeat(depth), rel)) });
                used.push(lp);
            }
        }
        if rng.chance(1, 3) && dirs.len() > 1 {
            let d = dirs[1 + rng.below(dirs.len() - 1)].clone();
            let lp = format!("{}/dirlink", root);
            if !used.contains(&lp) {
                let rel = d.strip_prefix(&format!("{}/", root)).unwrap_or(&d).to_string();
                entries.push(Entry { path: lp.clone(), kind: EntryKind::Symlink(rel) });
                used.push(lp);
            }
        }
    }
    let mut tree = TreeSpec { root, entries, mtime_mode: if rng.chance(1, 5) { if rng.chance(1, 2) { rng.range(1, 6) as u8 } else { rng.range(8, 49) as u8 } } else { 0 }, meta_mode: 0 };
    // half of the trees also hold what real deployments hold (see gen/real.rs)
    if rng.chance(1, 2) {
        super::real::add_realism(rng, &mut tree);
    }
    // a quarter of the trees with the modes and link counts deployments have
    if rng.chance(1, 4) {
        tree.meta_mode = rng.range(1, 3) as u8;
    }
    tree
}

/// request paths derived from the tree: every file, directories with and without slash, the
/// extensionless form of every .html, plus near misses
pub fn tree_paths(rng: &mut Rng, tree: &TreeSpec) -> Vec<(String, &'static str)> {
    let mut out: Vec<(String, &'static str)> = vec![];
    let prefix = format!("{}/", tree.root);
    for e in &tree.entries {
        let rel = match e.path.strip_prefix(&prefix) {
            Some(r) => format!("/{}", r),
            None => continue,
        };
        match &e.kind {
            EntryKind::File(_) => {
                out.push((rel.clone(), "file"));
                if let Some(stem) = rel.strip_suffix(".html") {
                    if !stem.ends_with("/index") {
                        out.push((stem.to_string(), "html_fallback"));
                    } else {
                        let d = stem.strip_suffix("/index").unwrap();
                        out.push((format!("{}/", d), "dir_index_slash"));
                        if !d.is_empty() {
                            out.push((d.to_string(), "dir_index"));
                        }
                    }
                }
                out.push((format!("{}/", rel), "file_trailing_slash"));
                out.push((format!("{}x", rel), "missing"));
            }
            EntryKind::Dir => {
                out.push((rel.clone(), "dir"));
                out.push((format!("{}/", rel), "dir_slash"));
            }
            EntryKind::Symlink(_) => {
                out.push((rel.clone(), "symlink"));
                out.push((format!("{}/", rel), "symlink_slash"));
            }
        }
    }
    out.push(("/".into(), "root"));
    out.push(("/nope.txt".into(), "missing"));
    out.push(("/nope/".into(), "missing"));
    out.push(("/d1/nope".into(), "missing"));
    // decorate some with query / fragment / doubled slash
    let n = out.len();
    for i in 0..n {
        let (p, _) = out[i].clone();
        match rng.below(10) {
            0 => out.push((format!("{}?x=1&y=2", p), "with_query")),
            1 => out.push((format!("{}#frag", p), "with_fragment")),
            2 => out.push((format!("{}?q=a%20b#top", p), "with_query_and_fragment")),
            3 => out.push((p.replacen('/', "//", 1), "doubled_slash")),
            4 => out.push((format!("/.{}", p), "dot_segment")),
            // ".." as a whole segment, but inside the query or fragment: not part of the path
            6 => {
                // a long query or fragment of multi-byte characters: the target passes every length
                // around 255 / 256 / 257 ... bytes with a character boundary at every phase
                let n = *rng.pick(&[100usize, 200, 240, 250, 255, 256, 257, 260, 300, 500, 1000]) + rng.below(4);
                let n = n.saturating_sub(p.len()).max(8);
                let ph = rng.below(n);
                out.push((format!("{}{}{}", p, if rng.chance(2, 3) { "?note=" } else { "#" }, super::real::utf8_of_len(rng, n, ph)), "with_long_utf8_query"));
            }
            5 => out.push((format!("{}{}", p, rng.pick(&["?return=/shop/../cart", "?dir=/docs/..", "#/../x", "?next=..", "?a=1&back=../", "?p=/..", "#..", "?q=x/../../y#z"])), "with_query_dotdot")),
            _ => {}
        }
    }
    out
}

/// Standard request headers a browser, proxy or tool may send. None of them changes what a
/// static file server has to answer (no Range, no Origin here), so they can decorate any request.
pub const BENIGN_HEADERS: &[(&str, &str)] = &[
    ("Accept", "text/html,application/xhtml+xml,*/*;q=0.8"), ("Accept-Encoding", "gzip, deflate, br"), ("Accept-Language", "en-US,en;q=0.5"),
    ("User-Agent", "Mozilla/5.0 (X11; Linux x86_64) rws-sim"), ("Connection", "keep-alive"), ("Connection", "close"), ("Cache-Control", "no-cache"),
    ("Cache-Control", "max-age=0"), ("Pragma", "no-cache"), ("Upgrade-Insecure-Requests", "1"), ("DNT", "1"), ("Sec-GPC", "1"), ("Save-Data", "on"),
    ("Save-Data", "off"), ("Sec-Fetch-Dest", "document"), ("Sec-Fetch-Mode", "navigate"), ("Sec-Fetch-Site", "cross-site"), ("Sec-Fetch-User", "?1"),
    ("Sec-CH-UA", "\"Chromium\";v=\"120\""), ("Sec-CH-UA-Mobile", "?1"), ("Sec-CH-UA-Platform", "\"Android\""), ("Device-Memory", "0.5"), ("Downlink", "0.4"),
    ("ECT", "2g"), ("RTT", "900"), ("Viewport-Width", "320"), ("Width", "320"), ("DPR", "2"), ("Referer", "http://other.example/page"),
    ("Cookie", "session=abc; theme=dark"), ("Authorization", "Basic dXNlcjpwYXNz"), ("If-None-Match", "\"abc\""), ("If-None-Match", "*"), ("If-Modified-Since", "Wed, 21 Oct 2015 07:28:00 GMT"), ("If-Modified-Since", "Fri, 01 Jan 2038 00:00:00 GMT"),
    ("If-Modified-Since", "Sun, 13 Sep 2020 12:26:40 GMT"), ("If-Unmodified-Since", "Thu, 01 Jan 1970 00:00:00 GMT"), ("Accept-Encoding", "gzip"), ("Accept-Encoding", "br;q=1.0, gzip;q=0.8, *;q=0.1"), ("Accept-Encoding", "identity"),
    ("If-Match", "*"), ("If-Unmodified-Since", "Wed, 21 Oct 2015 07:28:00 GMT"), ("If-Range", "\"abc\""), ("X-Forwarded-For", "203.0.113.7"), ("X-Forwarded-Proto", "https"),
    ("Forwarded", "for=192.0.2.60;proto=http;by=203.0.113.43"), ("Via", "1.1 proxy.example"), ("TE", "trailers"), ("Expect", "100-continue"), ("Max-Forwards", "0"),
    ("Upgrade", "websocket"), ("X-Requested-With", "XMLHttpRequest"), ("Early-Data", "1"), ("Priority", "u=1, i"), ("Purpose", "prefetch"), ("X-Http-Method-Override", "DELETE"),
    ("Content-Encoding", "gzip"), ("Transfer-Encoding", "chunked"), ("Accept-Charset", "utf-8"), ("From", "bot@example.org"), ("Host", "other.example:8080"),
];

/// every standard (and de-facto standard) request header name a server might start to interpret
pub const HEADER_NAMES: &[&str] = &[
    "A-IM", "Accept", "Accept-Charset", "Accept-Datetime", "Accept-Encoding", "Accept-Language", "Access-Control-Request-Method", "Access-Control-Request-Headers",
    "Authorization", "Cache-Control", "Connection", "Content-Encoding", "Content-Length", "Content-MD5", "Content-Type", "Cookie", "Date", "Expect", "Forwarded", "From",
    "Host", "HTTP2-Settings", "If-Match", "If-Modified-Since", "If-None-Match", "If-Range", "If-Unmodified-Since", "Max-Forwards", "Origin", "Pragma", "Prefer",
    "Proxy-Authorization", "Range", "Referer", "TE", "Trailer", "Transfer-Encoding", "User-Agent", "Upgrade", "Via", "Warning", "Upgrade-Insecure-Requests",
    "X-Requested-With", "DNT", "X-Forwarded-For", "X-Forwarded-Host", "X-Forwarded-Proto", "X-Forwarded-Port", "X-Real-IP", "Front-End-Https", "X-Http-Method-Override",
    "X-ATT-DeviceId", "X-Wap-Profile", "Proxy-Connection", "X-UIDH", "X-Csrf-Token", "X-Request-ID", "X-Correlation-ID", "Correlation-ID", "Save-Data", "Sec-GPC",
    "Sec-Fetch-Dest", "Sec-Fetch-Mode", "Sec-Fetch-Site", "Sec-Fetch-User", "Sec-CH-UA", "Sec-CH-UA-Arch", "Sec-CH-UA-Bitness", "Sec-CH-UA-Full-Version-List",
    "Sec-CH-UA-Mobile", "Sec-CH-UA-Model", "Sec-CH-UA-Platform", "Sec-CH-UA-Platform-Version", "Sec-CH-Prefers-Reduced-Motion", "Sec-CH-Prefers-Color-Scheme",
    "Device-Memory", "Downlink", "ECT", "RTT", "DPR", "Width", "Viewport-Width", "Early-Data", "Priority", "Purpose", "Sec-Purpose", "Service-Worker-Navigation-Preload",
    "Sec-WebSocket-Key", "Sec-WebSocket-Version", "Sec-WebSocket-Protocol", "Sec-WebSocket-Extensions", "Keep-Alive", "Content-Disposition", "Content-Range", "Content-Location",
    "Last-Event-ID", "Ping-From", "Ping-To", "Alt-Used", "CDN-Loop", "CF-Connecting-IP", "True-Client-IP", "X-Client-IP", "X-Cluster-Client-IP", "X-Original-URL", "X-Rewrite-URL",
    "Accept-CH", "Vary", "Last-Modified", "ETag", "Location", "Server", "Set-Cookie", "Allow", "Age", "Expires", "Retry-After", "Link", "NEL", "Digest", "Want-Digest",
];

/// odd but transmittable header values: unbalanced brackets and quotes, separators, numbers at limits
pub const ODD_VALUES: &[&str] = &[
    "", " ", "[", "]", "[::1", "[2001:db8::7", "::1]", "[]", "(", ")", "\"", "\"unterminated", "'", ",", ",,", ";", ";=", "=", "=;", ":", "::", "a:b:c", ":80", "host:", "*", "*/*;q=",
    "%", "%zz", "%00", "-", "--", "-1", "0", "00", "1e9", "18446744073709551616", "9223372036854775808", "-9223372036854775809", "NaN", "inf", "true", "null", "undefined",
    "a=b=c", "a;b;c", "a, b,, c", "q=0.0000000001", "bytes", "bytes=", "W/\"", "W/\"x", "\"x\", \"y", "Mon, 99 Foo 9999 99:99:99 GMT", "for=\"[::1", "for=_x;by=", "1.2.3", "1.2.3.4.5",
    "999.999.999.999", "1.2.3.4:99999", "unknown", "localhost:notaport", "http://", "http://[", "://", "\u{e9}\u{4e16}", "\t", "x\ty", "?1", "?", "u=9, i=?", "keep-alive, close, upgrade",
];

/// 1..3 headers from the full name list with odd values (for checks whose oracle is only
/// "answered, no crash"): whatever a future code path starts to parse, it gets ugly input
pub fn decorate_odd(rng: &mut Rng, request: &[u8]) -> Vec<u8> {
    let pos = match crate::util::find(request, b"\r\n") {
        Some(p) => p + 2,
        None => return request.to_vec(),
    };
    let mut v = request[..pos].to_vec();
    for _ in 0..rng.range(1, 3) {
        let n = *rng.pick(HEADER_NAMES);
        let val = if rng.chance(1, 6) { "x".repeat(rng.range(200, 3000)) } else { rng.pick(ODD_VALUES).to_string() };
        v.extend_from_slice(format!("{}: {}\r\n", n, val).as_bytes());
    }
    v.extend_from_slice(&request[pos..]);
    v
}

/// the same request with its header lines in another order (order of ordinary headers is free)
pub fn shuffle_headers(rng: &mut Rng, request: &[u8]) -> Vec<u8> {
    let head_end = match crate::util::find(request, b"\r\n\r\n") {
        Some(p) => p,
        None => return request.to_vec(),
    };
    let head = &request[..head_end];
    let mut lines: Vec<&[u8]> = vec![];
    let mut start = 0;
    for i in 0..head.len().saturating_sub(1) {
        if head[i] == b'\r' && head[i + 1] == b'\n' {
            lines.push(&head[start..i]);
            start = i + 2;
        }
    }
    lines.push(&head[start..]);
    if lines.len() < 3 {
        return request.to_vec();
    }
    let mut hs: Vec<&[u8]> = lines[1..].to_vec();
    rng.shuffle(&mut hs);
    let mut v = lines[0].to_vec();
    for h in hs {
        v.extend_from_slice(b"\r\n");
        v.extend_from_slice(h);
    }
    v.extend_from_slice(&request[head_end..]);
    v
}

/// query parameters a server may one day interpret, with values that decode to header syntax
pub const QUERY_PARAMS: &[&str] = &["download", "filename", "name", "file", "attachment", "inline", "disposition", "type", "content-type", "charset", "lang", "callback", "cb", "jsonp", "redirect", "next", "url", "return", "format", "ref", "v", "as", "dl", "raw", "origin", "cors", "cache", "etag", "range"];
pub const QUERY_INJECT: &[&str] = &["x%0D%0AX-Injected:%201", "x%0AX-Injected:%201", "x%0DX-Injected:%201", "x%0D%0A%0D%0A<html>injected", "x%0D%0ASet-Cookie:%20injected=1", "x%22%0D%0AX-Injected:%201", "x%250D%250AX-Injected:%201", "%0D%0AX-Injected:%201%0D%0AX-Tail:%20"];
pub const QUERY_BENIGN: &[&str] = &["x", "notes.txt", "1", "true", "a%20b", "utf-8", "en"];

/// insert 1..3 dictionary headers after the request line of a well-formed request
pub fn decorate(rng: &mut Rng, request: &[u8]) -> Vec<u8> {
    let pos = match crate::util::find(request, b"\r\n") {
        Some(p) => p + 2,
        None => return request.to_vec(),
    };
    let mut v = request[..pos].to_vec();
    for _ in 0..rng.range(1, 3) {
        let (n, val) = *rng.pick(BENIGN_HEADERS);
        v.extend_from_slice(format!("{}: {}\r\n", n, val).as_bytes());
    }
    v.extend_from_slice(&request[pos..]);
    v
}

// ------------------------------------------------------------------------------- request mutations

/// One request of the C04 input space built from `base_target` (a path that exists) for a node
/// whose request buffer is `buf` bytes. Returns (class label, bytes).
pub fn mutated_request(rng: &mut Rng, base_target: &str, buf: usize) -> (&'static str, Vec<u8>) {
    let t = base_target;
    if rng.chance(1, 4) {
        return ("positional_mutation", positional_mutation(rng, t));
    }
    match rng.below(57) {
        0 => ("valid_get", get(t)),
        1 => ("valid_head", req("HEAD", t, &[], b"")),
        2 => ("valid_options", req("OPTIONS", t, &[("Origin", "http://a.example"), ("Access-Control-Request-Method", "GET")], b"")),
        3 => ("method_lowercase", format!("get {} HTTP/1.1\r\nHost: h\r\n\r\n", t).into_bytes()),
        4 => ("method_unknown", format!("BREW {} HTTP/1.1\r\nHost: h\r\n\r\n", t).into_bytes()),
        5 => ("method_empty", format!(" {} HTTP/1.1\r\nHost: h\r\n\r\n", t).into_bytes()),
        6 => ("method_long", format!("{} {} HTTP/1.1\r\n\r\n", "G".repeat(rng.range(100, 3000)), t).into_bytes()),
        7 => ("target_no_leading_slash", b"GET x HTTP/1.1\r\nHost: h\r\n\r\n".to_vec()),
        8 => ("target_absolute_form", format!("GET http://evil.example{} HTTP/1.1\r\nHost: h\r\n\r\n", t).into_bytes()),
        9 => ("target_asterisk", b"OPTIONS * HTTP/1.1\r\nHost: h\r\n\r\n".to_vec()),
        10 => ("target_authority", b"CONNECT host.example:443 HTTP/1.1\r\nHost: h\r\n\r\n".to_vec()),
        11 => ("target_nul", format!("GET {}\0x HTTP/1.1\r\nHost: h\r\n\r\n", t).into_bytes()),
        12 => {
            let mut v = b"GET /\xff\xfe\x80 HTTP/1.1\r\nHost: h\r\n\r\n".to_vec();
            if rng.chance(1, 2) {
                v = b"GET / HTTP/1.1\r\nX-Bin: \xff\xfe\r\n\r\n".to_vec();
            }
            ("non_utf8_head", v)
        }
        13 => {
            if rng.chance(1, 2) {
                ("target_long", format!("GET /{} HTTP/1.1\r\nHost: h\r\n\r\n", "a".repeat(rng.range(200, buf.max(201) * 2))).into_bytes())
            } else {
                let n = *rng.pick(&[120usize, 250, 254, 255, 256, 257, 258, 300, 511, 512, 513, 1000, 1023, 1024, 1025, 2000]);
                let ph = rng.below(n);
                let tail = super::real::utf8_of_len(rng, n, ph);
                ("target_long_utf8", format!("GET {}{}{} HTTP/1.1\r\nHost: h\r\n\r\n", t, rng.pick(&["?q=", "#", "/", "x"]), tail).into_bytes())
            }
        }
        14 => ("target_odd", format!("GET {} HTTP/1.1\r\nHost: h\r\n\r\n", rng.pick(&["//a//b", "/%zz", "/?", "/#", "/%", "/a?%", "?x", "#", "/..", "/.", "/:80", "/a b", "/\\..\\x", ":99999999999/", "@x/../../out.txt"])).into_bytes()),
        15 => {
            let ver = *rng.pick(&["HTTP/9.9", "http/1.1", "HtTp/1.1", "HTTP/1.0", "HTTP/2.0", "HTTP/0.9", "http/1.0", "HTTP/3.0", "HTTP/1.2"]);
            ("version_variant", format!("GET {} {}\r\nHost: h\r\n\r\n", t, ver).into_bytes())
        }
        16 => ("version_junk", format!("GET {} HTTP/1.1x\r\nHost: h\r\n\r\n", t).into_bytes()),
        17 => ("version_missing", format!("GET {}\r\nHost: h\r\n\r\n", t).into_bytes()),
        18 => ("line_only_method", b"GET\r\n\r\n".to_vec()),
        19 => ("line_empty", b"\r\n\r\n".to_vec()),
        20 => ("line_extra_spaces", format!("GET  {}  HTTP/1.1\r\nHost: h\r\n\r\n", t).into_bytes()),
        21 => ("lf_only", format!("GET {} HTTP/1.1\nHost: h\n\n", t).into_bytes()),
        22 => ("content_length_junk", req("POST", t, &[("Content-Length", *rng.pick(&["a", "-1", "", "1e3", "0x10", " 5", "5 5"]))], b"hello")),
        23 => ("content_length_huge", req("POST", t, &[("Content-Length", *rng.pick(&["99999999999999999999", "18446744073709551615", "18446744073709551616", "9223372036854775807"]))], b"x")),
        24 => ("range_odd", req("GET", t, &[("Range", *rng.pick(&["bytes=-30", "bytes=-999999999", "bytes=5-2", "bytes=", "bytes=-", "bytes=a-b", "bytes=0-99999999999999999999", "bytes=18446744073709551615-", "bytes=0-0,-1", "chars=0-1", "bytes=0-1,2-3,4-5,6-7,8-9", "bytes=1-2-3", "bytes=--1", "bytes= 0 - 1"]))], b"")),
        25 => ("header_no_colon", format!("GET {} HTTP/1.1\r\nNoColonHere\r\nHost: h\r\n\r\n", t).into_bytes()),
        26 => ("header_empty_name", format!("GET {} HTTP/1.1\r\n: value\r\n:\r\n\r\n", t).into_bytes()),
        27 => {
            // header flood sized to the buffer: one recursion level per line
            let per = rng.range(2, 4);
            let n = (buf / per).min(20_000);
            let line: &[u8] = match per {
                2 => b"\r\n",
                3 => b"a\r\n",
                _ => b"a:\r\n",
            };
            let mut v = format!("GET {} HTTP/1.1\r\n", t).into_bytes();
            if per == 2 {
                // bare line ends terminate the head at once; use LF-only lines with a blank
                for _ in 0..n {
                    v.extend_from_slice(b"a\n");
                }
            } else {
                for _ in 0..n {
                    v.extend_from_slice(line);
                }
            }
            v.extend_from_slice(b"\r\n");
            ("header_flood", v)
        }
        28 => {
            let n = rng.range(50, 400);
            let mut v = format!("GET {} HTTP/1.1\r\n", t).into_bytes();
            for i in 0..n {
                v.extend_from_slice(format!("X-H{}: {}\r\n", i, "v".repeat(rng.below(20))).as_bytes());
            }
            v.extend_from_slice(b"\r\n");
            ("many_headers", v)
        }
        29 => ("header_long_value", req("GET", t, &[("X-Long", &"v".repeat(rng.range(1000, buf.max(1001) * 2)))], b"")),
        30 => {
            let body = match rng.below(4) {
                0 => b"a=1&b=%ff%fe&c=\xff\xfe".to_vec(),
                1 => { let n = rng.range(1, 300); rng.bytes(n) },
                2 => b"=&=&&&%%%".to_vec(),
                _ => b"key=value&other=thing".to_vec(),
            };
            ("form_urlencoded_body", req("POST", FORM_URLENC, &[("Content-Type", "application/x-www-form-urlencoded"), ("Content-Length", &body.len().to_string())], &body))
        }
        31 => {
            let b = "XBOUND";
            let body = match rng.below(6) {
                0 => format!("--{b}\r\nContent-Disposition: form-data; name=\"f\"\r\n\r\nvalue\r\n--{b}--\r\n").into_bytes(),
                1 => format!("--{b}\r\nContent-Disposition: form-data; name=\"f\"\r\n\r\n").into_bytes().into_iter().chain(vec![0xff, 0xfe, 0x00]).chain(format!("\r\n--{b}--\r\n").into_bytes()).collect(),
                2 => format!("--{b}\r\nX-Other: 1\r\n\r\nvalue\r\n--{b}--\r\n").into_bytes(),
                3 => format!("--{b}\r\nContent-Disposition: form-data\r\n\r\nvalue\r\n--{b}--\r\n").into_bytes(),
                4 => format!("--{b}\r\nContent-Disposition: form-data; name=\"f\"; filename=\"../../up.txt\"\r\nContent-Type: text/plain\r\n\r\nfile body\r\n--{b}--\r\n").into_bytes(),
                _ => { let n = rng.range(0, 200); rng.bytes(n) },
            };
            let ct = match rng.below(4) {
                0 => "multipart/form-data; boundary=".to_string(),
                1 => "multipart/form-data; boundary=\"XBOUND\"".to_string(),
                _ => format!("multipart/form-data; boundary={}", b),
            };
            ("form_multipart_body", req("POST", FORM_MULTIPART, &[("Content-Type", &ct), ("Content-Length", &body.len().to_string())], &body))
        }
        32 => ("form_get", get(&format!("{}?{}", FORM_GET, rng.pick(&["a=1&b=2", "", "a", "=", "a=%ff", "a=%zz&&b", "x=1#f", "%=%"])))),
        33 => ("file_upload", req("POST", &format!("{}?{}", FILE_UPLOAD, rng.pick(&["name=a.txt&size=5&lastModified=1", "name=../x&size=-1&lastModified=a", "name=a", "", "size=1&lastModified=2", "name=%ff&size=%&lastModified=%%"])), &[("Content-Length", "5")], b"hello")),
        34 => {
            let base = get(t);
            let cut = rng.below(base.len());
            ("truncated", base[..cut].to_vec())
        }
        35 => {
            // exactly the buffer, one more, many times the buffer
            let target_len = match rng.below(3) {
                0 => buf,
                1 => buf + 1,
                _ => buf * rng.range(2, 4),
            };
            let mut v = format!("GET {} HTTP/1.1\r\nHost: h\r\nX-Pad: ", t).into_bytes();
            while v.len() + 4 < target_len {
                v.push(b'p');
            }
            v.extend_from_slice(b"\r\n\r\n");
            ("sized_to_buffer", v)
        }
        36 => ("random_bytes", { let n = rng.range(1, 600); rng.bytes(n) }),
        37 => ("random_ascii", (0..rng.range(1, 300)).map(|_| rng.range(32, 126) as u8).collect()),
        38 => ("zeros", vec![0u8; rng.range(1, 50)]),
        39 => ("post_static", req("POST", t, &[("Content-Type", "text/plain"), ("Content-Length", "3")], b"abc")),
        40 => ("put_static", req(*rng.pick(&["PUT", "DELETE", "PATCH", "TRACE"]), t, &[("Content-Length", "3")], b"abc")),
        41 => ("host_odd", req("GET", t, &[("Host", *rng.pick(&["h:notaport", "h:99999999999999999999999999999999999999999", ":", "", "[::1]:80", "a:b:c"]))], b"")),
        42 => ("origin_hostile", req("GET", t, &[("Origin", "http://a.example\rX-Injected: 1"), ("Access-Control-Request-Headers", "x\0y")], b"")),
        43 => ("duplicate_headers", format!("GET {} HTTP/1.1\r\nHost: a\r\nHost: b\r\nRange: bytes=0-1\r\nRange: bytes=2-3\r\nContent-Length: 1\r\nContent-Length: 2\r\n\r\nab", t).into_bytes()),
        44 => {
            if rng.chance(1, 2) {
                ("query_param_inject", get(&format!("{}?{}={}", t, rng.pick(QUERY_PARAMS), rng.pick(QUERY_INJECT))))
            } else {
                ("query_odd", get(&format!("{}?{}", t, rng.pick(&["a=b=c", "&&&", "%", "a=%", "=", "\u{fc}=\u{fc}", "a[]=1&a[]=2", "x=1?y=2"]))))
            }
        }
        46 => {
            // a header with the kind of syntax slip real clients produce, on a request that is otherwise fine
            let (n, v) = *rng.pick(super::real::SLIPPED_HEADERS);
            ("slipped_header", req(*rng.pick(&["GET", "GET", "HEAD", "OPTIONS", "POST"]), t, &[(n, v)], b""))
        }
        47 => {
            // long and multi-byte values (every byte offset is the middle of a character now and then)
            let name = *rng.pick(&["User-Agent", "User-Agent", "Referer", "Cookie", "Origin", "Accept-Language", "X-Forwarded-For", "Host", "Range", "Content-Type"]);
            let n = if rng.chance(1, 2) { rng.range(40, 300) } else { *rng.pick(&[63usize, 64, 65, 79, 80, 81, 127, 128, 129, 255, 256, 257, 511, 512, 1023, 1024, 1025, 4095, 4096]) };
            let phase = rng.below(n.max(1));
            let val = super::real::utf8_of_len(rng, n, phase);
            ("long_utf8_header", req(*rng.pick(&["GET", "HEAD", "OPTIONS"]), t, &[(name, &val)], b""))
        }
        48 => {
            // very long values in the headers the CORS answer reflects, sized to the request buffer
            let room = buf.saturating_sub(200).max(64);
            let frac = *rng.pick(&[10usize, 25, 35, 40, 50, 70, 90, 99]);
            let long = |len: usize, sep: bool| -> String { if sep { (0..len / 8 + 1).map(|i| format!("x-hdr-{:02}", i % 100)).collect::<Vec<_>>().join(",")[..len.max(1)].to_string() } else { "h".repeat(len.max(1)) } };
            let (o, m, h) = match rng.below(3) {
                0 => (format!("http://{}.example", long(room * frac / 100, false)), "GET".to_string(), "X-A".to_string()),
                1 => ("http://a.example".to_string(), "GET".to_string(), long(room * frac / 100, true)),
                _ => ("http://a.example".to_string(), long(room * frac / 100, false), "X-A".to_string()),
            };
            ("long_reflected_values", req(*rng.pick(&["OPTIONS", "OPTIONS", "GET"]), t, &[("Origin", &o), ("Access-Control-Request-Method", &m), ("Access-Control-Request-Headers", &h)], b""))
        }
        49 => {
            // a multipart form with very many minimal parts (one unit of work per part)
            let per = *rng.pick(&[9usize, 12, 40]);
            let n = (buf.saturating_sub(300) / per).min(30_000).max(1);
            let n = if rng.chance(1, 3) { rng.range(1, n) } else { n };
            let mut body: Vec<u8> = vec![];
            for i in 0..n {
                match per {
                    9 => body.extend_from_slice(b"--B


"),
                    12 => body.extend_from_slice(b"--B
a:b


"),
                    _ => body.extend_from_slice(format!("--B
Content-Disposition: form-data; name=\"f{}\"

v
", i).as_bytes()),
                }
            }
            body.extend_from_slice(b"--B--
");
            ("multipart_many_parts", req("POST", FORM_MULTIPART, &[("Content-Type", "multipart/form-data; boundary=B"), ("Content-Length", &body.len().to_string())], &body))
        }
        50 => {
            // raw control characters and header syntax inside the request target
            let base = *rng.pick(&["/d", "/d/", "/page", "/file.txt", "/", "/missing", "/d/index.html"]);
            let evil = *rng.pick(&["\rSet-Cookie:a=b", "\rX-Injected:1", "\rSet-Cookie: a=b", "\tx", "\x0b", "\x0c", "\x7f", "\x01", "%0d%0aX-Injected:%201", "\r", "a\rb\rc", "\u{85}", "\u{2028}", ": x", "\r\rLocation: http://evil.example/"]);
            let t2 = match rng.below(3) {
                0 => format!("{}?next={}", base, evil),
                1 => format!("{}#{}", base, evil),
                _ => format!("{}{}", base, evil),
            };
            ("target_control_chars", format!("{} {} HTTP/1.1\r\nHost: h\r\n\r\n", rng.pick(&["GET", "HEAD", "OPTIONS"]), t2).into_bytes())
        }
        52 => {
            // two requests written back to back (a pipelining client), or a request followed by junk
            let mut v = match rng.below(3) { 0 => get(t), 1 => req("HEAD", t, &[], b""), _ => req("POST", FORM_URLENC, &[("Content-Type", "application/x-www-form-urlencoded"), ("Content-Length", "3")], b"a=1") };
            match rng.below(3) {
                0 => v.extend_from_slice(&get("/one.txt")),
                1 => v.extend_from_slice(&get(t)),
                _ => v.extend_from_slice(b"\0\0garbage after the request\r\n\r\n"),
            }
            ("pipelined", v)
        }
        53 => {
            // keep-alive and upgrade negotiation a one-request-per-connection server has to decline quietly
            let hs: &[(&str, &str)] = match rng.below(4) {
                0 => &[("Connection", "keep-alive"), ("Keep-Alive", "timeout=5, max=1000")],
                1 => &[("Connection", "Upgrade"), ("Upgrade", "websocket"), ("Sec-WebSocket-Key", "dGhlIHNhbXBsZSBub25jZQ=="), ("Sec-WebSocket-Version", "13")],
                2 => &[("Connection", "Upgrade, HTTP2-Settings"), ("Upgrade", "h2c"), ("HTTP2-Settings", "AAMAAABkAARAAAAAAAIAAAAA")],
                _ => &[("Expect", "100-continue"), ("Content-Length", "5")],
            };
            ("connection_negotiation", req(*rng.pick(&["GET", "POST", "PUT"]), t, hs, b""))
        }
        54 => {
            // a flood of one syntactic element at one position of an otherwise ordinary request, sized to
            // the buffer: whatever is done once per element is done thousands of times
            let room = buf.saturating_sub(120).max(16);
            let (unit, at): (&str, u8) = *rng.pick(&[("\r\n", 0u8), ("\n", 0), (" ", 0), ("\r\n", 1), ("&", 2), ("a&", 2), ("=", 2), (";", 2), ("%", 2), ("+", 2), ("?", 2), ("#", 3), (".", 4), ("/./", 4), (",", 5), ("a,", 5), (";", 5), ("; q=1", 5), (" ", 5), ("\t", 5), ("\r\n ", 5), ("=", 5), ("\"", 5), ("(", 5)]);
            let n = (room / unit.len()).min(40_000);
            let n = if rng.chance(1, 3) { rng.range(1, n) } else { n };
            let flood = unit.repeat(n);
            let hname = *rng.pick(&["Accept", "Accept-Encoding", "Accept-Language", "Cookie", "Access-Control-Request-Headers", "Content-Type", "User-Agent", "X-Forwarded-For", "Cache-Control", "Origin"]);
            let v = match at {
                0 => format!("{}GET {} HTTP/1.1\r\nHost: h\r\n\r\n", flood, t),
                1 => format!("GET {} HTTP/1.1\r\n{}Host: h\r\n\r\n", t, flood),
                2 => format!("GET {}?{} HTTP/1.1\r\nHost: h\r\n\r\n", t, flood),
                3 => format!("GET {}{} HTTP/1.1\r\nHost: h\r\n\r\n", t, flood),
                4 => format!("GET /{}x HTTP/1.1\r\nHost: h\r\n\r\n", flood),
                _ => format!("{} {} HTTP/1.1\r\nHost: h\r\nOrigin: http://a.example\r\n{}: {}\r\n\r\n", rng.pick(&["GET", "OPTIONS"]), t, hname, flood),
            };
            ("element_flood", v.into_bytes())
        }
        55 => {
            // tens to thousands of range specs
            let k = *rng.pick(&[21usize, 50, 200, 201, 202, 500, 1000, 2000]);
            let k = k.min(buf.saturating_sub(100) / 4).max(2);
            let specs: Vec<String> = (0..k).map(|i| { let a = match rng.below(3) { 0 => i % 10, 1 => 9 - i % 10, _ => rng.below(10) }; format!("{}-{}", a, a) }).collect();
            ("many_ranges", req(*rng.pick(&["GET", "GET", "HEAD", "OPTIONS"]), t, &[("Range", &format!("bytes={}", specs.join(",")))], b""))
        }
        56 => {
            // request headers that exist in the wild and that this server has never heard of, with the
            // values that switch things on
            match rng.below(3) {
                0 => {
                    // the fetch-metadata set of a browser, any site x mode x destination
                    let hs = super::real::fetch_metadata(rng);
                    let hr: Vec<(&str, &str)> = hs.iter().map(|(n, v)| (n.as_str(), v.as_str())).collect();
                    ("fetch_metadata", req(*rng.pick(&["GET", "GET", "OPTIONS", "HEAD"]), t, &hr, b""))
                }
                1 => {
                    let (n, v) = *rng.pick(super::real::FETCH_BUNDLES);
                    ("header_bundle", req(*rng.pick(&["GET", "GET", "OPTIONS", "HEAD"]), t, &[(n, v)], b""))
                }
                _ => {
                    let (n, v) = *rng.pick(super::real::SWITCH_HEADERS);
                    ("switch_header", req(*rng.pick(&["GET", "OPTIONS", "OPTIONS", "HEAD", "POST"]), t, &[("Origin", "http://a.example"), ("Access-Control-Request-Method", "GET"), (n, v)], b""))
                }
            }
        }
        51 => {
            let (n, v) = *rng.pick(super::real::CONDITIONAL_HEADERS);
            ("conditional_header", req(*rng.pick(&["GET", "HEAD"]), t, &[(n, v)], b""))
        }
        _ => {
            let route = *rng.pick(&["/", "/style.css", "/script.js", "/favicon.svg", "/404.html", "/index.html"]);
            if rng.chance(1, 2) {
                let m = *rng.pick(&["GET", "GET", "HEAD", "OPTIONS"]);
                ("builtin_with_range", req(m, route, &[("Range", *rng.pick(&["bytes=0-9", "bytes=5-", "bytes=-7", "bytes=0-1,4-5", "bytes=99999-"]))], b""))
            } else {
                ("builtin", get(route))
            }
        }
    }
}

/// A valid request with 1..3 byte-level mutations at random positions of its method, target,
/// version, header names/values, delimiters and body.
pub fn positional_mutation(rng: &mut Rng, t: &str) -> Vec<u8> {
    let mp = "--B\r\nContent-Disposition: form-data; name=\"f\"\r\n\r\nvalue\r\n--B--\r\n";
    let mut v = match rng.below(7) {
        0 => req("GET", t, &[("Range", "bytes=0-9,20-29"), ("Origin", "http://a.example"), ("Accept", "*/*")], b""),
        1 => req("HEAD", t, &[("Origin", "http://a.example")], b""),
        2 => req("OPTIONS", t, &[("Origin", "http://a.example"), ("Access-Control-Request-Method", "GET"), ("Access-Control-Request-Headers", "X-A")], b""),
        3 => req("POST", FORM_URLENC, &[("Content-Type", "application/x-www-form-urlencoded"), ("Content-Length", "7")], b"a=1&b=2"),
        4 => req("POST", FORM_MULTIPART, &[("Content-Type", "multipart/form-data; boundary=B"), ("Content-Length", &mp.len().to_string())], mp.as_bytes()),
        5 => get(&format!("{}?a=1&b=two#frag", FORM_GET)),
        _ => req("POST", &format!("{}?name=a.txt&size=5&lastModified=1", FILE_UPLOAD), &[("Content-Length", "5")], b"hello"),
    };
    const INS: &[u8] = b" \r\n\0:%/.-=&;,\"'\\\xff\x80+#?*0a";
    for _ in 0..rng.range(1, 3) {
        if v.is_empty() {
            break;
        }
        let pos = rng.below(v.len());
        match rng.below(6) {
            0 => {
                v.remove(pos);
            }
            1 => v.insert(pos, *rng.pick(INS)),
            2 => v[pos] = *rng.pick(INS),
            3 => {
                let b = v[pos];
                let n = rng.range(1, 40);
                for _ in 0..n {
                    v.insert(pos, b);
                }
            }
            4 => {
                let end = (pos + rng.range(1, 12)).min(v.len());
                v.drain(pos..end);
            }
            _ => {
                let other = rng.below(v.len());
                v.swap(pos, other);
            }
        }
    }
    v
}

// ------------------------------------------------------------------------------------------ faults

/// At most one transport fault for a connection, drawn from the enabled kinds.
pub fn transport_fault(rng: &mut Rng, c: &mut Conn, enabled: &[&str]) {
    if enabled.is_empty() {
        return;
    }
    let kind = *rng.pick(enabled);
    let len = c.request.0.len();
    match kind {
        "seg" => {
            if len >= 2 {
                let n = rng.range(2, 4.min(len));
                let mut cuts: Vec<usize> = (0..n - 1).map(|_| rng.range(1, len - 1)).collect();
                // bias one boundary into the request line
                if rng.chance(1, 2) {
                    cuts[0] = rng.range(1, 12.min(len - 1));
                }
                cuts.sort();
                cuts.dedup();
                let mut prev = 0;
                for cpos in cuts {
                    c.delivery.push(Seg { len: cpos - prev, yields_before: rng.below(4) as u32 });
                    prev = cpos;
                }
                c.delivery.push(Seg { len: len - prev, yields_before: rng.range(0, 6) as u32 });
            }
        }
        "eof" => {
            c.client = ClientMode::HalfClose { segments_sent: Some(0) };
        }
        "eof_mid" => {
            if len >= 2 {
                let cut = rng.range(1, len - 1);
                c.delivery = vec![Seg { len: cut, yields_before: 0 }, Seg { len: len - cut, yields_before: 0 }];
                c.client = ClientMode::HalfClose { segments_sent: Some(1) };
            }
        }
        "read_err" => {
            let k = *rng.pick(&[IoKind::ConnectionReset, IoKind::TimedOut, IoKind::Interrupted, IoKind::WouldBlock]);
            c.faults.read_errs.push((0, k));
        }
        "short_write" => {
            c.faults.cuts = match rng.below(3) {
                // (chunk sizes below 16 only on a share of runs: a 256 KiB file in 1-byte pieces
                // costs several hundred thousand scheduler steps)
                0 => Cuts::Every(if rng.chance(1, 4) { rng.range(1, 15) } else { rng.range(16, 4096) }),
                1 => Cuts::At(vec![rng.range(1, 400)]),
                _ => {
                    let mut v: Vec<usize> = (0..rng.range(2, 5)).map(|_| rng.range(1, 2000)).collect();
                    v.sort();
                    v.dedup();
                    Cuts::At(v)
                }
            };
        }
        "write_zero" => {
            c.faults.write_zero_at = Some(*rng.pick(&[0usize, 1, 17, 100]));
        }
        "write_err" => {
            let at = *rng.pick(&[0usize, 0, 1, 20, 200, 400, 1000]);
            let k = *rng.pick(&[IoKind::BrokenPipe, IoKind::ConnectionReset, IoKind::Interrupted, IoKind::WouldBlock]);
            c.faults.write_fault = Some(WriteFault { at, kind: k, sticky: k != IoKind::Interrupted });
        }
        "flush_err" => {
            c.faults.flush_err = Some(*rng.pick(&[IoKind::BrokenPipe, IoKind::ConnectionReset, IoKind::Other]));
        }
        "client_gone" => {
            c.client = ClientMode::Gone {
                segments_sent: if rng.chance(1, 3) { Some(0) } else { None },
                reset: rng.chance(1, 2),
                write: *rng.pick(&[GoneWrite::Accept, GoneWrite::Epipe, GoneWrite::Reset]),
            };
        }
        "stall" => {
            c.client = ClientMode::Stall { then_send: rng.chance(1, 2) };
        }
        "accept_err" => {
            c.faults.accept_err = Some(*rng.pick(&[IoKind::ConnectionAborted, IoKind::TooManyFiles]));
        }
        "addr_err" => {
            match rng.below(3) {
                0 => c.faults.peer_addr_err = true,
                1 => c.faults.local_addr_err = true,
                _ => c.faults.dup_err = true,
            }
        }
        "handler_err" => {
            c.faults.handler_err = true;
        }
        "handler_panic" => {
            c.faults.handler_panic = Some(rng.chance(1, 2));
        }
        _ => {}
    }
}

pub const ALL_FAULT_KINDS: &[&str] = &[
    "seg", "eof", "eof_mid", "read_err", "short_write", "write_zero", "write_err", "flush_err", "client_gone", "stall", "accept_err", "addr_err", "handler_err",
];

/// swarm: a random subset of the given fault kinds is enabled for this run
pub fn swarm_subset<'a>(rng: &mut Rng, kinds: &[&'a str]) -> Vec<&'a str> {
    let mut v: Vec<&str> = kinds.iter().copied().filter(|_| rng.chance(2, 5)).collect();
    if v.is_empty() && rng.chance(1, 2) {
        v.push(*rng.pick(kinds));
    }
    v
}

/// small standard tree used by campaigns that are not about lookup: a few files of known content
pub fn small_tree(nonce: u64) -> TreeSpec {
    let root = "root".to_string();
    let f = |name: &str, k: usize, len: usize| Entry {
        path: format!("root/{}", name),
        kind: EntryKind::File(Content::Gen { marker: format!("{}\n", marker(nonce, k)), len, seed: nonce.wrapping_add(k as u64), binary: false }),
    };
    let lit = |name: &str, b: &str| Entry { path: format!("root/{}", name), kind: EntryKind::File(Content::Literal(b.into())) };
    // (a sixth of the nonces give the tree odd modification times: before 1970, at the epoch, after 2038)
    TreeSpec { root, mtime_mode: if nonce % 6 == 5 { (1 + nonce % 5) as u8 } else { 0 }, meta_mode: if nonce % 5 == 3 { (1 + nonce % 3) as u8 } else { 0 }, entries: vec![f("probe.txt", 0, 64), f("file.txt", 1, 300), f("page.html", 2, 500), f("d/index.html", 3, 200), f("big.bin", 4, 20000), lit("empty.txt", ""), lit("one.txt", "1"), lit("file.txt.gz", "GZ-not really gzip"), lit("page.html.gz", "GZ-not really gzip either"), lit("big.bin.br", "brotli?")] }
}

pub fn probe_request() -> Vec<u8> {
    get("/probe.txt")
}


// ------------------------------------------------------------------------------- start-up (Boot)

const CORS_KEYS: [(&str, &str, bool); 7] = [
    ("RWS_CONFIG_CORS_ALLOW_ALL", "allow_all", false),
    ("RWS_CONFIG_CORS_ALLOW_ORIGINS", "allow_origins", true),
    ("RWS_CONFIG_CORS_ALLOW_METHODS", "allow_methods", true),
    ("RWS_CONFIG_CORS_ALLOW_HEADERS", "allow_headers", true),
    ("RWS_CONFIG_CORS_ALLOW_CREDENTIALS", "allow_credentials", false),
    ("RWS_CONFIG_CORS_EXPOSE_HEADERS", "expose_headers", true),
    ("RWS_CONFIG_CORS_MAX_AGE", "max_age", false),
];

fn toml_value(rng: &mut Rng, v: &str, list: bool, multiline: bool, eol: &str) -> String {
    let q = if rng.chance(1, 2) { "\"" } else { "'" };
    if list {
        let items: Vec<String> = v.split(',').filter(|x| !x.is_empty()).map(|x| format!("{}{}{}", q, x, q)).collect();
        if multiline && !items.is_empty() {
            let mut out = format!("[{}", eol);
            for it in &items {
                out.push_str(&format!("    {},{}", it, eol));
            }
            out.push(']');
            out
        } else {
            format!("[{}]", items.join(if rng.chance(1, 2) { ", " } else { "," }))
        }
    } else if v == "true" || v == "false" || (!v.is_empty() && v.chars().all(|c| c.is_ascii_digit()) && rng.chance(1, 2)) {
        v.to_string()
    } else {
        format!("{}{}{}", q, v, q)
    }
}

/// Turns a scenario whose configuration is `sc.env` into one that gets the same effective
/// configuration through the real start-up code: every CORS setting comes from the environment, from
/// `<root>/rws.config.toml` or from the command line, with decoy values in the sources that lose
/// (command line over file over environment). `multiline`: arrays spread over several lines, whose
/// meaning the pinned reader does not define (then the scenario is not `exact`).
pub fn boot_through_start_up(rng: &mut Rng, sc: &mut Scenario, multiline: bool) {
    let decoy = |k: &str, v: &str| -> String {
        match k {
            "RWS_CONFIG_CORS_ALLOW_ALL" => if v == "true" { "false".into() } else { "true".into() },
            "RWS_CONFIG_CORS_ALLOW_ORIGINS" => "http://decoy.example,http://other.example".into(),
            "RWS_CONFIG_CORS_ALLOW_METHODS" => "TRACE,CONNECT".into(),
            "RWS_CONFIG_CORS_ALLOW_HEADERS" => "x-decoy".into(),
            "RWS_CONFIG_CORS_ALLOW_CREDENTIALS" => if v == "true" { "false".into() } else { "true".into() },
            "RWS_CONFIG_CORS_EXPOSE_HEADERS" => "x-decoy-exposed".into(),
            _ => "7".into(),
        }
    };
    let eol = if rng.chance(1, 2) { "\r\n" } else { "\n" };
    let mut boot = Boot { env: vec![], cli: vec![], exact: !multiline };
    let mut lines: Vec<String> = vec![];
    let mut keys: Vec<(&str, &str, bool)> = CORS_KEYS.to_vec();
    rng.shuffle(&mut keys);
    for (envk, filek, list) in keys {
        let eff = match sc.env.iter().find(|(k, _)| k == envk) {
            Some((_, v)) => v.clone(),
            None => continue,
        };
        // values the line-based reader cannot carry stay in the environment
        let plain = !eff.contains(|c: char| c == ' ' || c == '#' || c == '\'' || c == '"' || c == '[' || c == ']' || c == '=');
        let src = if plain { rng.below(5) } else { 0 };
        let mut file_line = |rng: &mut Rng, v: &str| {
            let sp = *rng.pick(&[" = ", "=", "  =  ", " ="]);
            let comment = if rng.chance(1, 3) { format!(" # {}", rng.pick(&["as agreed", "see ticket 12", "do not change"])) } else { String::new() };
            lines.push(format!("{}{}{}{}", filek, sp, toml_value(rng, v, list, multiline && list, eol), comment));
        };
        match src {
            0 => boot.env.push((envk.to_string(), eff.clone())),
            1 => {
                boot.env.push((envk.to_string(), decoy(envk, &eff)));
                file_line(rng, &eff);
            }
            2 => file_line(rng, &eff),
            3 => {
                file_line(rng, &decoy(envk, &eff));
                boot.cli.push(format!("--cors-{}={}", filek.replace('_', "-"), eff));
            }
            _ => {
                boot.env.push((envk.to_string(), decoy(envk, &eff)));
                boot.cli.push(format!("--cors-{}={}", filek.replace('_', "-"), eff));
            }
        }
    }
    let mut text = String::new();
    if rng.chance(1, 2) {
        text.push_str(&format!("# rws configuration{}{}", eol, eol));
    }
    if rng.chance(1, 2) {
        text.push_str(&format!("ip = '127.0.0.1'{}thread_count = {}{}request-allocation-size-in-bytes = {} # bytes{}{}", eol, sc.workers, eol, sc.request_size, eol, eol));
    }
    text.push_str(&format!("[cors]{}", eol));
    for l in &lines {
        text.push_str(l);
        text.push_str(eol);
        if rng.chance(1, 5) {
            text.push_str(eol);
        }
    }
    let path = format!("{}/rws.config.toml", sc.tree.root);
    sc.tree.entries.retain(|e| e.path != path);
    sc.tree.entries.push(Entry { path, kind: EntryKind::File(Content::Literal(text.into())) });
    sc.boot = Some(boot);
}
