//! Child-side runtime: the installed `Backend` (simulated transport, logical clock, scheduling
//! points), the world (node + client tasks + probe) and the report handed to the oracles.
//!
//! All connection state is plain data behind a never-contended std Mutex; blocking and waking go
//! through one shuttle gate Mutex plus one shuttle Condvar per waiter class, so every blocking
//! transport call is a scheduling point owned by the scheduler.

use crate::scenario::*;
use crate::util::{hash_str, mix};
use rws::verif::Backend;
use std::collections::{BTreeMap, VecDeque};
use std::io;
use std::net::{IpAddr, Ipv4Addr, SocketAddr};
use std::sync::{Mutex as StdMutex, OnceLock};

pub const CV_LISTENER: usize = 0;
pub const CV_MAIN: usize = 1;
pub const CV_AUX: usize = 2; // probe rendezvous, pool rendezvous / gate
pub const CV_BASE: usize = 3;
fn cv_srv(id: usize) -> usize {
    CV_BASE + 2 * id
}
fn cv_cli(id: usize) -> usize {
    CV_BASE + 2 * id + 1
}

#[derive(Clone, Debug, serde::Serialize)]
pub struct PanicRec {
    pub file: String,
    pub line: u32,
    pub msg: String,
    /// connection of the last transport call before the panic (tasks switch only inside
    /// transport and sync calls, so this is the panicking task's connection)
    pub conn: Option<usize>,
}

#[derive(Clone, Debug, Default)]
pub struct WCall {
    pub len: usize,
    /// bytes accepted, or -1 for an error
    pub ret: i64,
}

#[derive(Clone, Debug, Default)]
pub struct ConnState {
    // --- script (copied from the scenario / built for probes)
    pub faults: Faults,
    pub probe: bool,
    // --- client side
    pub queued: bool,
    pub inbound: Vec<u8>,
    pub in_pos: usize,
    pub client_write_closed: bool,
    pub client_gone: Option<(bool, GoneWrite)>,
    pub client_done: bool,
    pub delivered_before_first_read: usize,
    // --- server side
    pub consumed: bool, // taken out of the accept queue (handed out, or its accept error returned)
    pub accepted: bool,
    pub handles: usize,
    pub server_closed: bool,
    pub server_waiting_read: bool,
    pub outbound: Vec<u8>,
    pub read_calls: usize,
    pub reads: Vec<i64>,
    pub first_read_buf: usize,
    pub writes: Vec<WCall>,
    pub written_total: usize,
    pub write_fault_consumed: bool,
    pub write_zero_consumed: bool,
    pub flush_calls: usize,
    pub fired: Vec<String>,
    pub served_by: Option<String>,
    pub in_process: bool,
    pub stage_after_read: bool,
    pub read_timeout: Option<std::time::Duration>,
}

#[derive(Clone, Debug)]
pub enum AcceptItem {
    Conn(usize),
    Err(usize, IoKind),
}

#[derive(Clone, Debug)]
pub struct ThreadRec {
    pub name: String,
    pub alive: bool,
    pub panic: Option<PanicRec>,
}

#[derive(Default)]
pub struct State {
    pub conns: Vec<ConnState>,
    pub accept_q: VecDeque<AcceptItem>,
    pub world_over: bool,
    pub to_notify: Vec<usize>,
    pub sig: u64,
    pub events: u64,
    pub trace: Option<Vec<String>>,
    pub threads: Vec<ThreadRec>,
    pub panics_attributed: usize,
    pub server_exited: bool,
    pub clock: u64,
    pub sync_points: u64,
    pub yields_taken: u64,
    pub last_conn: Option<usize>,
    pub timer_calls: u64,
    pub sim_clock_ns: u64,
    pub clock_reads: u64,
    /// which connection each worker thread is handling right now (by thread name)
    pub serving: BTreeMap<String, usize>,
    pub in_process: usize,
    pub reach: BTreeMap<&'static str, u64>,
    // pool engine
    pub exec_count: Vec<u32>,
    pub done: Vec<bool>,
    pub rdv_arrived: usize,
    pub round_arrived: BTreeMap<u32, usize>,
    pub gate_open: bool,
    pub inside_now: usize,
    pub max_inside: usize,
    pub submitted: usize,
}

pub struct World {
    pub sc: Scenario,
    pub st: StdMutex<State>,
    gate: shuttle::sync::Mutex<()>,
    cvs: Vec<shuttle::sync::Condvar>,
    yields: Vec<&'static str>,
    /// knob "sync_delay" (see SimBackend::sync_point)
    pub delay_at_sync: bool,
}

pub static WORLD: OnceLock<World> = OnceLock::new();
pub static PANICS: StdMutex<Vec<PanicRec>> = StdMutex::new(Vec::new());

pub fn world() -> &'static World {
    WORLD.get().expect("world not initialised")
}

fn task_name() -> String {
    shuttle::thread::current().name().map(|s| s.to_string()).unwrap_or_else(|| "?".to_string())
}

/// progress counter of the simulated world (every recorded event and every synchronisation point);
/// read by the busy-loop watchdog of the runner
pub static TICKS: std::sync::atomic::AtomicU64 = std::sync::atomic::AtomicU64::new(0);

impl State {
    pub fn log(&mut self, what: &str, conn: usize, detail: u64) {
        TICKS.fetch_add(1, std::sync::atomic::Ordering::Relaxed);
        let who = task_name();
        self.sig = mix(self.sig, hash_str(&who));
        self.sig = mix(self.sig, hash_str(what));
        self.sig = mix(self.sig, conn as u64);
        self.sig = mix(self.sig, detail);
        self.events += 1;
        if let Some(t) = self.trace.as_mut() {
            t.push(format!("{:>5} {:<8} {:<22} conn={} d={}", self.events, who, what, conn as i64, detail as i64));
        }
    }
    pub fn reach(&mut self, k: &'static str) {
        *self.reach.entry(k).or_insert(0) += 1;
    }
    pub fn note(&mut self, cv: usize) {
        if !self.to_notify.contains(&cv) {
            self.to_notify.push(cv);
        }
    }
}

impl World {
    pub fn new(sc: Scenario, trace: bool) -> World {
        let nconn = sc.conns.len() + 64; // room for probe connections
        let mut st = State::default();
        st.trace = if trace { Some(vec![]) } else { None };
        for c in &sc.conns {
            st.conns.push(ConnState { faults: c.faults.clone(), ..Default::default() });
        }
        if let Some(p) = &sc.pool {
            st.exec_count = vec![0; p.tasks.len()];
            st.done = vec![false; p.tasks.len()];
        }
        let yields: Vec<&'static str> = ["process.after_parse", "process.after_execute", "app.static_matched", "env"]
            .iter()
            .copied()
            .filter(|t| sc.yields.iter().any(|y| y == t))
            .collect();
        let ncv = CV_BASE + 2 * (nconn + 512);
        let delay_at_sync = sc.yields.iter().any(|y| y == "sync_delay");
        World {
            delay_at_sync,
            sc,
            st: StdMutex::new(st),
            gate: shuttle::sync::Mutex::new(()),
            cvs: (0..ncv).map(|_| shuttle::sync::Condvar::new()).collect(),
            yields,
        }
    }

    /// Block (as a scheduling point) until `f` yields a value. `f` runs with the state locked
    /// and may register wake-ups for others with `State::note`.
    pub fn block_on<R>(&self, cv: usize, mut f: impl FnMut(&mut State) -> Option<R>) -> R {
        let mut g = self.gate.lock().unwrap();
        loop {
            let (r, notes) = {
                let mut st = self.st.lock().unwrap();
                let r = f(&mut st);
                (r, std::mem::take(&mut st.to_notify))
            };
            for n in notes {
                self.cvs[n].notify_all();
            }
            if let Some(r) = r {
                return r;
            }
            g = self.cvs[cv].wait(g).unwrap();
        }
    }

    /// Non-blocking state change; wake-ups are delivered now, or - while a panic unwinds this
    /// task - left queued until the next synchronisation point of any task.
    pub fn with<R>(&self, f: impl FnOnce(&mut State) -> R) -> R {
        let r = {
            let mut st = self.st.lock().unwrap();
            f(&mut st)
        };
        self.flush();
        r
    }

    pub fn flush(&self) {
        TICKS.fetch_add(1, std::sync::atomic::Ordering::Relaxed);
        if std::thread::panicking() {
            return;
        }
        let pending = { !self.st.lock().unwrap().to_notify.is_empty() };
        if pending {
            let _g = self.gate.lock().unwrap();
            let notes = std::mem::take(&mut self.st.lock().unwrap().to_notify);
            for n in notes {
                self.cvs[n].notify_all();
            }
        }
    }

    /// a fault of the disk seam fired on the calling simulated thread
    pub fn disk_fault_fired(&self, op: usize, errno: usize) {
        if let Ok(mut st) = self.st.try_lock() {
            let who = shuttle::thread::current().name().map(|s| s.to_string());
            let conn = who.as_ref().and_then(|n| st.serving.get(n).copied());
            if op == 5 {
                // not a fault: the owner touched the file (contents unchanged, the answer is owed in full)
                st.log("owner_touch", conn.unwrap_or(usize::MAX), 0);
                st.reach("owner_touched_a_file_inside_a_request");
                return;
            }
            let what = format!("disk_{}:{}", ["?", "read", "open", "stat", "seek"][op.min(4)], if errno == 0 { "eof".to_string() } else { format!("errno{}", errno) });
            st.log("disk_fault", conn.unwrap_or(usize::MAX), (op * 1000 + errno) as u64);
            st.reach("disk_fault_fired");
            if let Some(c) = conn {
                st.conns[c].fired.push(what);
            }
        }
    }

    /// the code under test is about to touch a file: a scheduling point of the disk seam
    pub fn io_point(&self, kind: &'static str) {
        // never while this very thread is inside the harness state (no re-entrancy)
        match self.st.try_lock() {
            Ok(mut st) => {
                st.reach("file_io_scheduling_point");
                st.log("file_io", usize::MAX, hash_str(kind));
            }
            Err(_) => return,
        }
        self.flush();
        self.switch();
    }

    /// simulated CLOCK_MONOTONIC / CLOCK_REALTIME in nanoseconds: advances a little on every read
    /// and now and then jumps ahead by up to two minutes (time passes while a thread is not running)
    pub fn clock_read(&self, realtime: bool) -> Option<u64> {
        let mut st = self.st.try_lock().ok()?;
        st.clock_reads += 1;
        let h = mix(self.sc.sched.seed ^ 0xc10c, st.clock_reads);
        st.sim_clock_ns += 1_000;
        if h % 16 == 0 {
            st.sim_clock_ns += 1_000_000 + (h >> 8) % 120_000_000_000;
            st.reach("clock_jump");
        }
        let base: u64 = if realtime { epoch_base_ns(self.sc.sched.seed) } else { monotonic_base_ns(self.sc.sched.seed) };
        Some(base + st.sim_clock_ns)
    }

    /// plain scheduling point (not a yield request, which PCT would read as "demote me")
    pub fn switch(&self) {
        shuttle::thread::sleep(std::time::Duration::from_millis(0));
    }
}

/// Calendar instants a deployment lives through and a fixed simulated epoch never reaches (seconds
/// since 1970, all with 19-digit nanosecond values): leap days, year ends, daylight-saving changes,
/// the 2^31 and 2^32 second marks, century non-leap year, a Sunday midnight.
const EPOCHS: [u64; 16] = [
    1_709_164_800, // 2024-02-29 00:00:00
    1_709_251_199, // 2024-02-29 23:59:59
    1_735_689_599, // 2024-12-31 23:59:59 (leap year day 366)
    1_704_067_199, // 2023-12-31 23:59:59
    1_711_846_799, // 2024-03-31 00:59:59 UTC (EU clocks go forward)
    1_730_599_199, // 2024-11-03 01:59:59 (US clocks go back, as UTC label)
    1_700_351_999, // 2023-11-18 23:59:59, a Saturday turning Sunday
    2_147_483_646, // 2038-01-19 03:14:06: i32 seconds run out during the run
    2_147_483_649,
    4_102_444_799, // 2099-12-31 23:59:59
    4_107_542_399, // 2100-02-28 23:59:59: no leap day follows
    4_294_967_294, // 2106: u32 seconds run out during the run
    4_294_967_297,
    1_893_455_999, // 2029-12-31 23:59:59
    1_000_000_001, // 2001-09-09: the smallest 19-digit nanosecond values
    9_223_372_030, // 2262: i64 nanoseconds are about to run out (six seconds left)
];

/// wall-clock epoch of a run: half of the runs start at the legacy instant (2023-11-14), the others
/// one or two seconds before an instant of EPOCHS or at an arbitrary second of the next 30 years
pub fn epoch_base_ns(seed: u64) -> u64 {
    let h = mix(seed ^ 0xe90c, 1);
    let secs = match h % 4 {
        0 | 1 => 1_700_000_000,
        2 => EPOCHS[((h >> 8) % EPOCHS.len() as u64) as usize] - (h >> 16) % 3,
        _ => 1_700_000_000 + (h >> 8) % 946_080_000,
    };
    secs * 1_000_000_000 + if h % 4 >= 2 { (h >> 24) % 1_000_000_000 } else { 0 }
}

/// monotonic clock of a run: usually days after boot, sometimes a few seconds after it (subtracting
/// a duration from such an Instant underflows)
pub fn monotonic_base_ns(seed: u64) -> u64 {
    let h = mix(seed ^ 0xb007, 1);
    match h % 8 {
        0 => 1_000_000 + (h >> 8) % 5_000_000_000,
        1 => 4_000_000_000_000_000_000,
        _ => 1_000_000_000_000_000,
    }
}

// ------------------------------------------------------------------------------------------ backend

pub struct SimBackend;
pub static BACKEND: SimBackend = SimBackend;

fn addr(port: u16) -> SocketAddr {
    SocketAddr::new(IpAddr::V4(Ipv4Addr::new(127, 0, 0, 1)), port)
}

pub fn peer_port(conn: usize) -> u16 {
    10000 + conn as u16
}

/// Address of the client of connection `conn`. Half of the runs: loopback, one port per connection.
/// Otherwise clients come from many addresses (IPv4, IPv6, IPv4-mapped) and share a handful of
/// source ports - the same port from different addresses at the same time, as behind any NAT - or
/// use ports that wrap around 65535. An (address, port) pair is never used twice in a run.
pub fn peer_sockaddr(seed: u64, conn: usize) -> SocketAddr {
    use std::net::Ipv6Addr;
    let h = mix(seed ^ 0x9ee5, 1);
    match h % 4 {
        2 => {
            const PORTS: [u16; 3] = [40000, 51234, 1024];
            let k = conn / PORTS.len();
            let (a, b) = (((k / 4) % 256) as u8, (1 + (k / 4) / 256) as u8);
            let ip = match k % 4 {
                0 => IpAddr::V4(Ipv4Addr::new(10, 0, a, b)),
                1 => IpAddr::V6(Ipv6Addr::new(0x2001, 0xdb8, 0, 0, 0, 0, a as u16, b as u16)),
                2 => IpAddr::V4(Ipv4Addr::new(192, 168, a, b)),
                _ => IpAddr::V6(Ipv4Addr::new(172, 16, a, b).to_ipv6_mapped()),
            };
            SocketAddr::new(ip, PORTS[conn % PORTS.len()])
        }
        3 => SocketAddr::new(IpAddr::V6(Ipv6Addr::LOCALHOST), (65530u32 + conn as u32) as u16),
        _ => addr(peer_port(conn)),
    }
}

impl Backend for SimBackend {
    fn sync_point(&self) {
        if let Some(w) = WORLD.get() {
            let mut delay = 0u64;
            if !std::thread::panicking() {
                let mut st = w.st.lock().unwrap();
                st.sync_points += 1;
                st.log("sync", usize::MAX, 0);
                // knob "sync_delay": now and then a thread is held back for up to 48 scheduling
                // points right before a synchronisation operation - between two lock acquisitions
                // (check, then act) the others get far enough to change what was checked
                if w.delay_at_sync {
                    let h = mix(w.sc.sched.seed ^ 0xde1a, st.sync_points);
                    if h % 8 == 0 {
                        // (a quarter of them long: a thread descheduled for as long as a whole request takes)
                        delay = if (h >> 20) % 4 == 0 { 200 + (h >> 8) % 400 } else { 1 + (h >> 8) % 48 };
                        st.reach("thread_held_back_before_a_synchronisation_operation");
                    }
                }
            }
            w.flush();
            for _ in 0..delay {
                w.switch();
            }
        }
    }

    fn yield_point(&self, tag: &'static str) {
        let w = world();
        w.flush();
        if w.yields.contains(&tag) {
            w.with(|st| {
                st.yields_taken += 1;
                st.log("yield", usize::MAX, hash_str(tag));
                if tag == "process.after_parse" {
                    // reach probe: two requests between read and write at the same time
                    let n = st.conns.iter().filter(|c| c.stage_after_read && !c.server_closed && c.writes.is_empty()).count();
                    if n >= 2 {
                        st.reach("two_requests_between_read_and_write");
                    }
                }
            });
            w.switch();
        }
    }

    fn clock_now(&self) -> Option<u128> {
        let w = WORLD.get()?;
        let mut st = w.st.lock().unwrap();
        st.clock += 1;
        let base = epoch_base_ns(w.sc.sched.seed);
        if st.clock == 1 && base != 1_700_000_000_000_000_000 {
            st.reach("epoch_other_than_2023_11_14");
        }
        Some(base as u128 + st.clock as u128)
    }

    fn thread_enter(&self, name: Option<&str>) {
        let w = world();
        w.with(|st| {
            let name = name.unwrap_or("<unnamed>").to_string();
            st.log("thread_enter", usize::MAX, hash_str(&name));
            st.threads.push(ThreadRec { name, alive: true, panic: None });
        });
    }

    fn thread_exit(&self, name: Option<&str>, panicked: bool) {
        let w = world();
        w.with(|st| {
            let name = name.unwrap_or("<unnamed>").to_string();
            st.log("thread_exit", usize::MAX, panicked as u64);
            let rec = if panicked {
                let p = PANICS.lock().unwrap();
                p.last().cloned()
            } else {
                None
            };
            if let Some(t) = st.threads.iter_mut().rev().find(|t| t.name == name && t.alive) {
                t.alive = false;
                t.panic = rec;
            }
            if name == "accept" && panicked && !st.world_over {
                // the accept loop is gone: in production the process is left without a listener
                st.server_exited = true;
            }
            st.note(CV_MAIN);
        });
    }

    fn accept(&self, _listener: usize) -> Option<io::Result<usize>> {
        let w = world();
        w.flush();
        w.block_on(CV_LISTENER, |st| {
            if st.world_over {
                return Some(None);
            }
            match st.accept_q.pop_front() {
                None => None,
                Some(AcceptItem::Err(id, kind)) => {
                    st.conns[id].consumed = true;
                    st.conns[id].fired.push(format!("accept_err:{}", kind.name()));
                    st.log("accept_err", id, kind as u64);
                    st.reach("accept_error_path");
                    st.note(CV_MAIN);
                    st.note(cv_cli(id));
                    Some(Some(Err(kind.to_error())))
                }
                Some(AcceptItem::Conn(id)) => {
                    let busy = st.in_process;
                    let c = &mut st.conns[id];
                    c.consumed = true;
                    c.accepted = true;
                    c.handles = 1;
                    st.log("accept", id, 0);
                    let started = st.threads.iter().filter(|t| t.name != "accept").count();
                    if started > 0 && busy >= started {
                        st.reach("job_queued_while_all_workers_busy");
                    }
                    Some(Some(Ok(id)))
                }
            }
        })
    }

    fn listener_addr(&self, _listener: usize) -> io::Result<SocketAddr> {
        Ok(addr(7878))
    }

    fn local_addr(&self, stream: usize) -> io::Result<SocketAddr> {
        let w = world();
        w.with(|st| {
            if st.conns[stream].faults.local_addr_err {
                st.conns[stream].fired.push("local_addr_err".into());
                st.log("local_addr_err", stream, 0);
                st.reach("addr_error_path");
                Err(IoKind::ConnectionReset.to_error())
            } else {
                Ok(addr(7878))
            }
        })
    }

    fn peer_addr(&self, stream: usize) -> io::Result<SocketAddr> {
        let w = world();
        w.with(|st| {
            if st.conns[stream].faults.peer_addr_err {
                st.conns[stream].fired.push("peer_addr_err".into());
                st.log("peer_addr_err", stream, 0);
                st.reach("addr_error_path");
                Err(io::Error::from_raw_os_error(107)) // ENOTCONN
            } else {
                Ok(peer_sockaddr(w.sc.sched.seed, stream))
            }
        })
    }

    fn read(&self, stream: usize, buf: &mut [u8]) -> io::Result<usize> {
        let w = world();
        w.flush();
        let mut first = true;
        w.block_on(cv_srv(stream), |st| {
            if first {
                first = false;
                let who = task_name();
                let idx = st.conns[stream].read_calls;
                st.conns[stream].read_calls += 1;
                if idx == 0 {
                    let c = &mut st.conns[stream];
                    c.first_read_buf = buf.len();
                    c.served_by = Some(who.clone());
                    st.serving.insert(who, stream);
                    c.delivered_before_first_read = c.inbound.len();
                    if !c.in_process {
                        c.in_process = true;
                        st.in_process += 1;
                        let started = st.threads.iter().filter(|t| t.name != "accept").count();
                        if started > 1 && st.in_process >= started {
                            st.reach("all_workers_inside_process");
                        }
                        if st.in_process >= 2 {
                            st.reach("two_connections_inside_process");
                        }
                    }
                }
                st.log("read_call", stream, buf.len() as u64);
                st.last_conn = Some(stream);
                let c = &mut st.conns[stream];
                if let Some(&(_, kind)) = c.faults.read_errs.iter().find(|(i, _)| *i == idx) {
                    c.fired.push(format!("read_err:{}", kind.name()));
                    c.reads.push(-1);
                    st.log("read_err", stream, kind as u64);
                    st.reach("read_error_path");
                    return Some(Err(kind.to_error()));
                }
            }
            let c = &mut st.conns[stream];
            let avail = c.inbound.len() - c.in_pos;
            if avail > 0 && !buf.is_empty() {
                st.last_conn = Some(stream);
                let n = avail.min(buf.len());
                buf[..n].copy_from_slice(&c.inbound[c.in_pos..c.in_pos + n]);
                c.in_pos += n;
                c.reads.push(n as i64);
                c.server_waiting_read = false;
                c.stage_after_read = true;
                let total = c.inbound.len();
                st.log("read_ok", stream, n as u64);
                if n == buf.len() {
                    st.reach(if total > n { "request_exceeds_buffer" } else { "request_fills_buffer_exactly" });
                }
                return Some(Ok(n));
            }
            if buf.is_empty() {
                return Some(Ok(0));
            }
            if let Some((reset, _)) = c.client_gone {
                c.server_waiting_read = false;
                c.reads.push(if reset { -1 } else { 0 });
                st.log("read_gone", stream, reset as u64);
                st.reach("client_gone_before_read");
                return Some(if reset { Err(IoKind::ConnectionReset.to_error()) } else { Ok(0) });
            }
            if c.client_write_closed {
                c.server_waiting_read = false;
                c.reads.push(0);
                st.log("read_eof", stream, 0);
                st.reach("read_eof");
                return Some(Ok(0));
            }
            if c.read_timeout.is_some() && !c.probe {
                // SO_RCVTIMEO is set and nothing has arrived: the timer may fire
                st.timer_calls += 1;
                let rate = match mix(world().sc.sched.seed, 0x71_3e5) % 4 {
                    0 => 0,
                    1 | 2 => 2,
                    _ => 5,
                };
                if mix(world().sc.sched.seed ^ 0x7173, st.timer_calls) % 8 < rate {
                    let c = &mut st.conns[stream];
                    c.reads.push(-1);
                    c.fired.push("read_timeout".into());
                    st.reach("read_timeout_fired");
                    st.log("read_timeout", stream, 0);
                    return Some(Err(IoKind::WouldBlock.to_error()));
                }
            }
            let c = &mut st.conns[stream];
            if !c.server_waiting_read {
                c.server_waiting_read = true;
                st.note(CV_AUX);
                st.note(CV_MAIN);
                st.note(cv_cli(stream));
            }
            None
        })
    }

    fn write(&self, stream: usize, buf: &[u8]) -> io::Result<usize> {
        let w = world();
        w.flush();
        // a transport call is a scheduling point
        {
            let _g = w.gate.lock().unwrap();
        }
        w.with(|st| {
            st.last_conn = Some(stream);
            let c = &mut st.conns[stream];
            let p = c.written_total;
            let len = buf.len();
            if let Some((_, gw)) = c.client_gone {
                match gw {
                    GoneWrite::Accept => {}
                    GoneWrite::Epipe | GoneWrite::Reset => {
                        let kind = if gw == GoneWrite::Epipe { IoKind::BrokenPipe } else { IoKind::ConnectionReset };
                        c.fired.push(format!("client_gone_write:{}", kind.name()));
                        c.writes.push(WCall { len, ret: -1 });
                        st.log("write_gone", stream, kind as u64);
                        st.reach("client_gone_before_write");
                        return Err(kind.to_error());
                    }
                }
            }
            if let Some(f) = c.faults.write_fault.clone() {
                if p >= f.at && (f.sticky || !c.write_fault_consumed) {
                    c.write_fault_consumed = true;
                    c.fired.push(format!("write_err@{}:{}", p, f.kind.name()));
                    c.writes.push(WCall { len, ret: -1 });
                    st.log("write_err", stream, f.kind as u64);
                    if p > 0 {
                        st.reach("write_error_after_partial_progress");
                    } else {
                        st.reach("write_error_at_byte_0");
                    }
                    return Err(f.kind.to_error());
                }
            }
            if let Some(z) = c.faults.write_zero_at {
                if p >= z && !c.write_zero_consumed && len > 0 {
                    c.write_zero_consumed = true;
                    c.fired.push(format!("write_zero@{}", p));
                    c.writes.push(WCall { len, ret: 0 });
                    st.log("write_zero", stream, p as u64);
                    st.reach("write_returned_zero");
                    return Ok(0);
                }
            }
            let mut n = len;
            let mut limit = |at: usize| {
                if at > p && at - p < n {
                    n = at - p;
                }
            };
            match &c.faults.cuts {
                Cuts::None => {}
                Cuts::Every(k) => {
                    let k = (*k).max(1);
                    limit((p / k + 1) * k);
                }
                Cuts::At(v) => {
                    for &a in v {
                        limit(a);
                    }
                }
            }
            if let Some(f) = &c.faults.write_fault {
                if f.sticky || !c.write_fault_consumed {
                    limit(f.at);
                }
            }
            if let Some(z) = c.faults.write_zero_at {
                if !c.write_zero_consumed {
                    limit(z);
                }
            }
            if n < len {
                let tag = "short_write".to_string();
                if !c.fired.contains(&tag) {
                    c.fired.push(tag);
                }
            }
            c.outbound.extend_from_slice(&buf[..n]);
            c.written_total += n;
            c.writes.push(WCall { len, ret: n as i64 });
            let pieces = c.writes.iter().filter(|w| w.ret > 0).count();
            st.log(if n < len { "write_short" } else { "write_ok" }, stream, n as u64);
            if n < len {
                st.reach("short_write");
                if pieces >= 3 {
                    st.reach("short_write_in_3_or_more_pieces");
                }
            }
            st.note(cv_cli(stream));
            Ok(n)
        })
    }

    fn flush(&self, stream: usize) -> io::Result<()> {
        let w = world();
        w.flush();
        w.with(|st| {
            st.last_conn = Some(stream);
            let c = &mut st.conns[stream];
            c.flush_calls += 1;
            if let Some(kind) = c.faults.flush_err {
                c.fired.push(format!("flush_err:{}", kind.name()));
                st.log("flush_err", stream, kind as u64);
                st.reach("flush_error_path");
                return Err(kind.to_error());
            }
            st.log("flush", stream, 0);
            Ok(())
        })
    }

    fn shutdown(&self, stream: usize, how: std::net::Shutdown) -> io::Result<()> {
        let w = world();
        w.with(|st| {
            st.log("shutdown", stream, how as u64);
            if how != std::net::Shutdown::Read {
                st.conns[stream].server_closed = true;
                st.note(cv_cli(stream));
                st.note(CV_MAIN);
            }
            Ok(())
        })
    }

    fn dup(&self, stream: usize) -> io::Result<usize> {
        let w = world();
        w.with(|st| {
            if st.conns[stream].faults.dup_err {
                st.conns[stream].fired.push("dup_err".into());
                st.log("dup_err", stream, 0);
                st.reach("dup_error_path");
                return Err(io::Error::from_raw_os_error(libc::EMFILE));
            }
            st.conns[stream].handles += 1;
            Ok(stream)
        })
    }

    /// simulated time: the sleeper is away for `dur` (the clock moves on by as much); what the run
    /// spent asleep is kept for the liveness rules of C06 / C07
    fn slept(&self, dur: std::time::Duration) {
        let w = match WORLD.get() {
            Some(w) => w,
            None => return,
        };
        let who = task_name();
        w.with(|st| {
            let ms = dur.as_millis().min(u64::MAX as u128 / 4) as u64;
            st.sim_clock_ns = st.sim_clock_ns.saturating_add((dur.as_nanos().min(u64::MAX as u128 / 4)) as u64);
            st.log("sleep", usize::MAX, ms);
            *st.reach.entry("simulated_ms_slept_by_the_code_under_test").or_insert(0) += ms.min(1 << 50);
            let e = st.reach.entry("longest_single_sleep_ms").or_insert(0);
            *e = (*e).max(ms.min(1 << 50));
            if who != "main" && who != "accept" {
                let e = st.reach.entry("longest_single_sleep_of_a_worker_ms").or_insert(0);
                *e = (*e).max(ms.min(1 << 50));
            }
        });
    }

    /// the simulated host: one to four processors in half of the runs, the real count otherwise
    fn available_parallelism(&self) -> Option<usize> {
        let w = WORLD.get()?;
        let h = mix(w.sc.sched.seed ^ 0xc9a5, 1);
        match h % 8 {
            0 | 1 => Some(1),
            2 => Some(2),
            3 => Some(((h >> 8) % 4 + 1) as usize),
            _ => None,
        }
    }

    fn timer_fires(&self, what: &'static str) -> bool {
        let w = match WORLD.get() {
            Some(w) => w,
            None => return false,
        };
        w.with(|st| {
            st.timer_calls += 1;
            // per scenario: timers never fire, fire sometimes, fire often (a pure function of the
            // scenario's seed and the call count)
            let rate = match mix(w.sc.sched.seed, 0x71_3e5) % 4 {
                0 => 0,
                1 | 2 => 2,
                _ => 5,
            };
            let fires = mix(w.sc.sched.seed ^ 0x7173, st.timer_calls) % 8 < rate;
            if fires {
                st.reach("timer_fired");
                st.log("timer_fires", usize::MAX, hash_str(what));
            }
            fires
        })
    }

    fn set_timeout(&self, stream: usize, read: bool, timeout: Option<std::time::Duration>) -> io::Result<()> {
        let w = world();
        w.with(|st| {
            if read {
                st.conns[stream].read_timeout = timeout;
            }
            st.log("set_timeout", stream, read as u64);
            Ok(())
        })
    }

    fn unsupported(&self, what: &str) -> ! {
        // exit status 7 = "not simulable"; the parent reports it as a harness error
        let msg = format!("not simulable: {}", what);
        unsafe {
            libc::write(crate::runner::RESULT_FD.load(std::sync::atomic::Ordering::SeqCst), msg.as_ptr() as *const libc::c_void, msg.len());
            libc::_exit(7)
        }
    }

    fn close(&self, stream: usize) {
        let w = match WORLD.get() {
            Some(w) => w,
            None => return,
        };
        w.with(|st| {
            let panicking = std::thread::panicking();
            let c = &mut st.conns[stream];
            c.handles = c.handles.saturating_sub(1);
            if c.handles == 0 {
                c.server_closed = true;
                c.server_waiting_read = false;
                if c.in_process {
                    c.in_process = false;
                    st.in_process -= 1;
                }
                // no shuttle call (task_name) while unwinding
                if panicking {
                    st.sig = mix(st.sig, 0xdead_0000 + stream as u64);
                    st.events += 1;
                    if let Some(t) = st.trace.as_mut() {
                        t.push(format!("{:>5} (unwinding)  close conn={}", st.events, stream));
                    }
                } else {
                    st.log("close", stream, 0);
                }
                st.note(cv_cli(stream));
                st.note(CV_MAIN);
                st.note(CV_AUX);
            }
        });
    }
}

// ----------------------------------------------------------------------------------------- clients

impl World {
    fn connect(&self, id: usize) {
        let accept_err = self.sc_conn_faults(id).accept_err;
        self.with(|st| {
            st.conns[id].queued = true;
            st.log("connect", id, 0);
            match accept_err {
                Some(kind) => st.accept_q.push_back(AcceptItem::Err(id, kind)),
                None => st.accept_q.push_back(AcceptItem::Conn(id)),
            }
            st.note(CV_LISTENER);
        });
    }

    fn sc_conn_faults(&self, id: usize) -> Faults {
        self.st.lock().unwrap().conns[id].faults.clone()
    }

    fn deliver(&self, id: usize, bytes: &[u8]) {
        self.with(|st| {
            st.conns[id].inbound.extend_from_slice(bytes);
            st.log("deliver", id, bytes.len() as u64);
            st.note(cv_srv(id));
        });
    }

    fn wait_server_closed(&self, id: usize) {
        self.block_on(cv_cli(id), |st| {
            let c = &st.conns[id];
            if c.server_closed || (c.consumed && !c.accepted) {
                Some(())
            } else {
                None
            }
        });
    }

    /// body of one scripted client task
    pub fn client(&self, c: &Conn) {
        let id = c.id;
        // a revalidating client copies the validators of an earlier response into its request
        let mut revalidated: Option<Vec<u8>> = None;
        if let Some(k) = c.revalidate {
            let earlier = self.with(|st| st.conns.get(k).map(|x| x.outbound.clone()).unwrap_or_default());
            if let Some(r) = crate::wire::parse_response(&earlier).resp {
                let mut v = c.request.0.clone();
                if let Some(t) = r.get("ETag") {
                    v = crate::gen::real::with_header(&v, "If-None-Match", t.trim());
                }
                if let Some(t) = r.get("Last-Modified") {
                    v = crate::gen::real::with_header(&v, "If-Modified-Since", t.trim());
                }
                if v != c.request.0 {
                    self.with(|st| st.reach("client_revalidates_with_server_validators"));
                    revalidated = Some(v);
                }
            }
        }
        let req = revalidated.as_ref().unwrap_or(&c.request.0);
        // split the request into the scripted segments
        let mut segs: Vec<(u32, &[u8])> = vec![];
        if c.delivery.is_empty() {
            segs.push((0, &req[..]));
        } else {
            let mut pos = 0;
            for s in &c.delivery {
                let end = (pos + s.len).min(req.len());
                segs.push((s.yields_before, &req[pos..end]));
                pos = end;
            }
            if pos < req.len() {
                segs.push((0, &req[pos..]));
            }
        }
        let strict = c.delivery.is_empty();
        let limit = match &c.client {
            ClientMode::Normal => usize::MAX,
            ClientMode::HalfClose { segments_sent } => segments_sent.unwrap_or(usize::MAX),
            ClientMode::Gone { segments_sent, .. } => segments_sent.unwrap_or(usize::MAX),
            ClientMode::Stall { .. } => 0,
        };
        let mut sent = 0usize;
        if strict && limit > 0 {
            // everything is there before the server can accept the connection
            self.deliver(id, segs[0].1);
            sent = 1;
        }
        self.connect(id);
        if c.faults.accept_err.is_some() {
            self.with(|st| {
                st.conns[id].client_done = true;
                st.note(CV_MAIN);
            });
            return;
        }
        while sent < segs.len() && sent < limit {
            let (y, b) = segs[sent];
            for _ in 0..y {
                self.switch();
            }
            if sent > 0 || !strict {
                if sent > 0 {
                    self.with(|st| {
                        st.conns[id].fired.push("seg".into());
                        st.reach("request_in_several_segments");
                    });
                }
                self.deliver(id, b);
            }
            sent += 1;
        }
        match &c.client {
            ClientMode::Normal => {}
            ClientMode::HalfClose { .. } => {
                self.with(|st| {
                    st.conns[id].client_write_closed = true;
                    st.conns[id].fired.push("half_close".into());
                    st.log("half_close", id, 0);
                    st.note(cv_srv(id));
                });
            }
            ClientMode::Gone { reset, write, .. } => {
                self.with(|st| {
                    st.conns[id].client_gone = Some((*reset, *write));
                    st.conns[id].fired.push(if *reset { "client_reset".into() } else { "client_gone".into() });
                    st.log("client_gone", id, *reset as u64);
                    st.conns[id].client_done = true;
                    st.note(cv_srv(id));
                    st.note(CV_MAIN);
                });
                return;
            }
            ClientMode::Stall { then_send } => {
                self.with(|st| {
                    st.conns[id].fired.push("stall".into());
                    st.reach("stalled_connection");
                });
                // hold the connection (and with it a worker): wait until a read is pending on it.
                // While fewer connections stall than there are workers, a correct server serves
                // everybody else meanwhile, so the stall lasts until they have all ended;
                // otherwise it lasts a bounded number of steps.
                self.block_on(cv_cli(id), |st| if st.conns[id].server_waiting_read || st.conns[id].server_closed { Some(()) } else { None });
                let phase = c.phase;
                let stalls = self.sc.conns.iter().filter(|o| o.phase == phase && matches!(o.client, ClientMode::Stall { .. })).count();
                if stalls < self.sc.workers {
                    let others: Vec<usize> = self.sc.conns.iter().filter(|o| o.phase == phase && !matches!(o.client, ClientMode::Stall { .. })).map(|o| o.id).collect();
                    self.block_on(CV_MAIN, |st| if others.iter().all(|&o| conn_ended(&st.conns[o])) { Some(()) } else { None });
                    self.with(|st| st.reach("stall_outlasted_all_other_connections"));
                } else {
                    for _ in 0..24 {
                        self.switch();
                    }
                }
                if *then_send {
                    self.deliver(id, req);
                } else {
                    self.with(|st| {
                        st.conns[id].client_write_closed = true;
                        st.log("half_close", id, 0);
                        st.note(cv_srv(id));
                    });
                }
            }
        }
        self.wait_server_closed(id);
        self.with(|st| {
            st.conns[id].client_done = true;
            st.log("client_done", id, st.conns[id].outbound.len() as u64);
            st.note(CV_MAIN);
        });
    }
}

pub fn conn_ended(c: &ConnState) -> bool {
    c.client_done && c.consumed && (!c.accepted || c.server_closed)
}

// ------------------------------------------------------------------------------------------ report

#[derive(Clone, Debug, PartialEq, Eq)]
pub enum End {
    Completed,
    /// Server::run (or the legacy accept loop) returned: the process would exit
    ServerExited,
    Deadlock(String),
    StepLimit,
}

pub struct Report {
    pub end: End,
    pub conns: Vec<ConnState>,
    pub n_scripted: usize,
    /// ids of the capacity-probe connections and of the follow-up connection
    pub probe_ids: Vec<usize>,
    pub followup_id: Option<usize>,
    pub probe_started: bool,
    pub threads: Vec<ThreadRec>,
    pub panics: Vec<PanicRec>,
    pub sig: u64,
    pub events: u64,
    pub steps: u64,
    pub clock: u64,
    pub sync_points: u64,
    pub yields_taken: u64,
    pub reach: BTreeMap<&'static str, u64>,
    pub trace: Option<Vec<String>>,
    // pool
    pub exec_count: Vec<u32>,
    pub done: Vec<bool>,
    pub max_inside: usize,
    pub submitted: usize,
}
