//! A scenario is one simulated execution written out as data: tree, configuration, connections
//! with their delivery and fault scripts, scheduler kind and seed. Generators map a seed to a
//! scenario, the runner executes one, the shrinker edits them, replay files are scenarios.

use crate::util::{splitmix64, Bytes};
use serde::{Deserialize, Serialize};

#[derive(Serialize, Deserialize, Clone, Copy, Debug, PartialEq, Eq)]
pub enum Engine {
    /// real ThreadPool + real Server::run + real Server::process on the simulated listener
    System,
    /// real ThreadPool + harness accept loop + real Server::process_request
    Legacy,
    /// real ThreadPool only, harness tasks as jobs
    Pool,
}

#[derive(Serialize, Deserialize, Clone, Copy, Debug, PartialEq, Eq)]
pub enum SchedKind {
    Random,
    Pct,
    RoundRobin,
}

#[derive(Serialize, Deserialize, Clone, Copy, Debug, PartialEq, Eq)]
pub struct Sched {
    pub kind: SchedKind,
    pub seed: u64,
    pub depth: usize,
}

#[derive(Serialize, Deserialize, Clone, Copy, Debug, PartialEq, Eq, Hash)]
pub enum IoKind {
    ConnectionReset,
    ConnectionAborted,
    BrokenPipe,
    TimedOut,
    Interrupted,
    WouldBlock,
    TooManyFiles,
    Other,
}

impl IoKind {
    pub fn to_error(self) -> std::io::Error {
        use std::io::{Error, ErrorKind};
        match self {
            IoKind::ConnectionReset => Error::new(ErrorKind::ConnectionReset, "Connection reset by peer (simulated)"),
            IoKind::ConnectionAborted => Error::new(ErrorKind::ConnectionAborted, "Software caused connection abort (simulated)"),
            IoKind::BrokenPipe => Error::new(ErrorKind::BrokenPipe, "Broken pipe (simulated)"),
            IoKind::TimedOut => Error::new(ErrorKind::TimedOut, "Connection timed out (simulated)"),
            IoKind::Interrupted => Error::new(ErrorKind::Interrupted, "Interrupted system call (simulated)"),
            IoKind::WouldBlock => Error::new(ErrorKind::WouldBlock, "Resource temporarily unavailable (simulated)"),
            IoKind::TooManyFiles => Error::from_raw_os_error(24),
            IoKind::Other => Error::new(ErrorKind::Other, "I/O error (simulated)"),
        }
    }
    pub fn name(self) -> &'static str {
        match self {
            IoKind::ConnectionReset => "ECONNRESET",
            IoKind::ConnectionAborted => "ECONNABORTED",
            IoKind::BrokenPipe => "EPIPE",
            IoKind::TimedOut => "ETIMEDOUT",
            IoKind::Interrupted => "EINTR",
            IoKind::WouldBlock => "EWOULDBLOCK",
            IoKind::TooManyFiles => "EMFILE",
            IoKind::Other => "EIO",
        }
    }
}

// ------------------------------------------------------------------------------------------ tree

#[derive(Serialize, Deserialize, Clone, Debug, PartialEq)]
pub enum Content {
    Literal(Bytes),
    /// `marker` followed by position-dependent filler up to `len` bytes in total
    Gen { marker: String, len: usize, seed: u64, binary: bool },
    /// a sparse file of `len` bytes: zeros, except for "islands" of position-dependent non-zero
    /// bytes at the start, around every power of two from 4096 up, and at the end. Costs neither
    /// disk space nor (in the model, see `materialize`) touched memory outside the islands, so
    /// offsets beyond 2^31 / 2^32 can be requested.
    Sparse { len: u64, seed: u64 },
    /// the gzip form (stored blocks) of another content
    GzipOf(Box<Content>),
}

pub const ISLAND: u64 = 64;

/// (offset, bytes) of the non-zero stretches of a sparse file
pub fn islands(len: u64, seed: u64) -> Vec<(u64, Vec<u8>)> {
    let mut spans: Vec<(u64, u64)> = vec![];
    spans.push((0, ISLAND.min(len)));
    let mut k = 12u32;
    while k < 63 && (1u64 << k) < len {
        let c = 1u64 << k;
        spans.push((c - ISLAND / 2, (c + ISLAND / 2).min(len)));
        k += 1;
    }
    spans.push((len.saturating_sub(ISLAND), len));
    spans
        .into_iter()
        .filter(|(a, b)| a < b)
        .map(|(a, b)| (a, (a..b).map(|i| (splitmix64(seed ^ i.wrapping_mul(0x9E37_79B9)) as u8) | 1).collect()))
        .collect()
}

impl Content {
    pub fn materialize(&self) -> Vec<u8> {
        match self {
            Content::Literal(b) => b.0.clone(),
            Content::Gen { marker, len, seed, binary } => {
                let mut v = marker.as_bytes().to_vec();
                let mut i = 0usize;
                while v.len() < *len {
                    let b = if *binary {
                        if i < 256 {
                            // every byte value occurs at least once
                            ((i as u64 * 167 + (seed & 0xff)) & 0xff) as u8
                        } else {
                            (splitmix64(seed.wrapping_add((i / 8) as u64)) >> (8 * (i % 8))) as u8
                        }
                    } else {
                        const ALPHA: &[u8] = b"abcdefghijklmnopqrstuvwxyz0123456789 .,\n";
                        let r = (splitmix64(seed.wrapping_add((i / 8) as u64)) >> (8 * (i % 8))) as u8;
                        ALPHA[(r as usize) % ALPHA.len()]
                    };
                    v.push(b);
                    i += 1;
                }
                v
            }
            Content::GzipOf(inner) => crate::util::gzip_stored(&inner.materialize()),
            // (beyond 16 GiB no model copy: such files exist only in campaigns whose oracle does not
            // read file contents - C04 extreme_sizes)
            Content::Sparse { len, .. } if *len > 16 << 30 => Vec::new(),
            Content::Sparse { len, seed } => {
                // alloc_zeroed: the pages are mapped lazily, only the islands are touched
                let mut v = vec![0u8; *len as usize];
                for (at, bytes) in islands(*len, *seed) {
                    v[at as usize..at as usize + bytes.len()].copy_from_slice(&bytes);
                }
                v
            }
        }
    }
    pub fn len(&self) -> usize {
        match self {
            Content::Literal(b) => b.0.len(),
            Content::Gen { marker, len, .. } => (*len).max(marker.len()),
            Content::Sparse { len, .. } => *len as usize,
            Content::GzipOf(inner) => inner.len() + 18 + 5 * (inner.len() / 0xFFFF + 1),
        }
    }
}

#[derive(Serialize, Deserialize, Clone, Debug, PartialEq)]
pub enum EntryKind {
    Dir,
    File(Content),
    /// symbolic link; the string is the link target exactly as passed to symlink(2)
    Symlink(String),
}

#[derive(Serialize, Deserialize, Clone, Debug, PartialEq)]
pub struct Entry {
    /// path relative to the scratch base ("" is never used); entries outside `root` are the
    /// planted secrets / link targets
    pub path: String,
    pub kind: EntryKind,
}

#[derive(Serialize, Deserialize, Clone, Debug, PartialEq, Default)]
pub struct TreeSpec {
    /// served directory relative to the scratch base, e.g. "o1/o2/root"
    pub root: String,
    pub entries: Vec<Entry>,
    /// 0: every entry gets a fixed recent mtime; otherwise entries also get mtimes before 1970,
    /// at the epoch, beyond 2038 and far in the future (chosen by entry index)
    #[serde(default)]
    pub mtime_mode: u8,
    /// 0: modes as created (0644 / 0755), one name per file; otherwise files and directories get the
    /// modes deployments have (read-only, private, executable, setuid / setgid / sticky, group- and
    /// world-writable - the owner can always read) and every fourth file a second hard link outside
    /// the served directory (st_nlink = 2), chosen by entry index
    #[serde(default)]
    pub meta_mode: u8,
}

// ------------------------------------------------------------------------------------- connections

#[derive(Serialize, Deserialize, Clone, Debug, PartialEq)]
pub struct Seg {
    pub len: usize,
    pub yields_before: u32,
}

#[derive(Serialize, Deserialize, Clone, Copy, Debug, PartialEq, Eq)]
pub enum GoneWrite {
    /// the kernel still buffers the bytes (what a single write after FIN usually sees)
    Accept,
    Epipe,
    Reset,
}

#[derive(Serialize, Deserialize, Clone, Debug, PartialEq)]
pub enum ClientMode {
    /// sends, then keeps the connection open until the server closes it
    Normal,
    /// sends `segments_sent` segments (all if None), shuts down its write side, waits for the server
    HalfClose { segments_sent: Option<usize> },
    /// sends `segments_sent` segments (all if None), then disappears: reads see EOF (or a reset),
    /// writes behave as `write`
    Gone { segments_sent: Option<usize>, reset: bool, write: GoneWrite },
    /// connects, sends nothing until every other connection of its phase is finished, then
    /// sends everything (`then_send`) or closes
    Stall { then_send: bool },
}

#[derive(Serialize, Deserialize, Clone, Debug, PartialEq)]
pub enum Cuts {
    None,
    /// every write call is cut at multiples of this many cumulative bytes
    Every(usize),
    /// cumulative offsets at which a write call is cut short
    At(Vec<usize>),
}

#[derive(Serialize, Deserialize, Clone, Debug, PartialEq)]
pub struct WriteFault {
    /// cumulative number of bytes accepted before the fault
    pub at: usize,
    pub kind: IoKind,
    /// false: the error is returned once (EINTR style), true: from then on
    pub sticky: bool,
}

#[derive(Serialize, Deserialize, Clone, Debug, PartialEq)]
pub struct Faults {
    pub accept_err: Option<IoKind>,
    pub local_addr_err: bool,
    pub peer_addr_err: bool,
    /// (index of the read call on this connection, error)
    pub read_errs: Vec<(usize, IoKind)>,
    pub cuts: Cuts,
    pub write_fault: Option<WriteFault>,
    /// cumulative offset at which one write call returns Ok(0)
    pub write_zero_at: Option<usize>,
    pub flush_err: Option<IoKind>,
    pub handler_err: bool,
    /// the application handler panics instead of returning: Some(false) = with a literal
    /// message (&str payload), Some(true) = with a formatted one (String payload)
    #[serde(default)]
    pub handler_panic: Option<bool>,
    /// duplicating the socket (TcpStream::try_clone) fails with EMFILE: the process is at its
    /// descriptor limit. The pinned tree never duplicates a socket.
    #[serde(default)]
    pub dup_err: bool,
}

impl Default for Faults {
    fn default() -> Self {
        Faults {
            accept_err: None,
            local_addr_err: false,
            peer_addr_err: false,
            read_errs: vec![],
            cuts: Cuts::None,
            write_fault: None,
            write_zero_at: None,
            flush_err: None,
            handler_err: false,
            handler_panic: None,
            dup_err: false,
        }
    }
}

impl Faults {
    /// (dup_err does not count: it is a fault only for code that duplicates the socket, and then the
    /// connection's `fired` list says so)
    pub fn is_clean(&self) -> bool {
        let mut f = self.clone();
        f.dup_err = false;
        f == Faults::default()
    }
    /// nothing but short writes
    pub fn only_cuts(&self) -> bool {
        let mut f = self.clone();
        f.cuts = Cuts::None;
        f.is_clean()
    }
}

#[derive(Serialize, Deserialize, Clone, Debug, PartialEq)]
pub struct Conn {
    pub id: usize,
    /// connections of phase p start when every connection of the phases before has ended
    pub phase: u32,
    pub request: Bytes,
    /// empty: all bytes are available before the connection is accepted (strict delivery)
    pub delivery: Vec<Seg>,
    pub client: ClientMode,
    pub faults: Faults,
    /// free-form label of the generator (statistics only, never read by an oracle)
    pub class: String,
    /// id of the connection this one is compared with (same request under a benign transport /
    /// with benign header values)
    #[serde(default)]
    pub twin: Option<usize>,
    /// a revalidating client: before sending, the validators the server gave on that earlier
    /// connection (ETag, Last-Modified) are added as If-None-Match / If-Modified-Since
    #[serde(default)]
    pub revalidate: Option<usize>,
}

impl Conn {
    pub fn simple(id: usize, phase: u32, request: Vec<u8>, class: &str) -> Conn {
        Conn {
            id,
            phase,
            request: Bytes(request),
            delivery: vec![],
            client: ClientMode::Normal,
            faults: Faults::default(),
            class: class.to_string(),
            twin: None,
            revalidate: None,
        }
    }
    pub fn strict(&self) -> bool {
        self.delivery.is_empty() && self.client == ClientMode::Normal && self.faults.is_clean()
    }
    /// fully delivered before the first read, client stays: content of the response is determined
    pub fn strict_delivery(&self) -> bool {
        self.delivery.is_empty() && self.client == ClientMode::Normal
    }
}

#[derive(Serialize, Deserialize, Clone, Debug, PartialEq)]
pub enum Probe {
    None,
    /// one valid request after the history
    FollowUp { request: Bytes },
    /// as many simultaneous connections as worker threads were started, then a follow-up
    Capacity { request: Bytes },
}

// -------------------------------------------------------------------------------------------- pool

#[derive(Serialize, Deserialize, Clone, Copy, Debug, PartialEq, Eq)]
pub enum TaskKind {
    Instant,
    /// blocks until `size` tasks of this kind are inside at once
    Rendezvous,
    /// blocks until the harness opens the gate (after all other tasks completed)
    Gated,
    /// yields this many times
    Long(u32),
    /// round r of a long series of rendezvous: blocks until `size` tasks of round r are inside
    Round(u32),
    /// counts as executed, then panics
    Panicking,
}

#[derive(Serialize, Deserialize, Clone, Debug, PartialEq)]
pub struct PoolSc {
    pub size: usize,
    pub submitters: usize,
    pub tasks: Vec<TaskKind>,
    /// the owner drops the pool as soon as the last task has been handed over (submit and forget):
    /// everything handed over before still has to run
    #[serde(default)]
    pub drop_after_submit: bool,
}

// ---------------------------------------------------------------------------------------- scenario

#[derive(Serialize, Deserialize, Clone, Debug, PartialEq)]
pub struct Scenario {
    pub property: String,
    /// which check of the property produced it (quick enumeration, random campaign, ...)
    pub campaign: String,
    pub index: u64,
    pub engine: Engine,
    pub sched: Sched,
    pub workers: usize,
    pub request_size: i64,
    /// RWS_CONFIG_* environment of the node (CORS settings)
    pub env: Vec<(String, String)>,
    /// enabled stage yield points
    pub yields: Vec<String>,
    pub tree: TreeSpec,
    pub conns: Vec<Conn>,
    pub probe: Probe,
    pub pool: Option<PoolSc>,
    /// one fault of the disk seam: the nth call of that kind made by the code under test fails
    #[serde(default)]
    pub disk_fault: Option<DiskFault>,
    /// what the owner of the served directory does to it between two phases of connections
    #[serde(default)]
    pub owner_ops: Vec<OwnerOp>,
    /// the configuration reaches the node the way it reaches the shipped binary: through the real
    /// start-up code (environment, then rws.config.toml in the served directory, then command line)
    #[serde(default)]
    pub boot: Option<Boot>,
}

/// Start-up through the real configuration readers of /repo. The file itself is an entry of the tree
/// (`<root>/rws.config.toml`). `env` is what the environment holds beforehand, `cli` what the
/// command line says (applied last, as in `bootstrap()`). When `exact` is set, `Scenario.env` is the
/// effective configuration the model reasons with and the harness notes any difference after
/// start-up; otherwise the file uses syntax whose meaning the pinned reader does not define
/// (multi-line arrays) and only configuration-independent oracles apply.
#[derive(Serialize, Deserialize, Clone, Debug, PartialEq, Default)]
pub struct Boot {
    pub env: Vec<(String, String)>,
    pub cli: Vec<String>,
    pub exact: bool,
}

/// The owner redeploys, cleans up or unmounts while the server keeps running. `path` is relative to
/// the scratch base (like tree entries).
#[derive(Serialize, Deserialize, Clone, Debug, PartialEq)]
pub struct OwnerOp {
    /// applied when all connections of earlier phases have ended, before this phase starts
    pub before_phase: u32,
    /// "remove_tree" (the directory and everything below), "remove_file", "truncate", "replace_with_empty_dir"
    pub kind: String,
    pub path: String,
}

/// what the disk can do to a server: a file that ends before its size says (it was truncated or is
/// being replaced), an I/O error, a permission or descriptor-table error at open, a vanished file
#[derive(Serialize, Deserialize, Clone, Debug, PartialEq)]
pub struct DiskFault {
    /// "read", "open", "stat" or "seek"
    pub op: String,
    /// 1-based count of calls of that kind since the node started
    pub nth: u32,
    /// "eof" (reads only: 0 bytes) or an errno name: "EIO", "EACCES", "EMFILE", "ENOENT", "EINTR", "ENOMEM", "EISDIR"
    pub kind: String,
    /// reads: every later read of the same descriptor fails the same way
    pub sticky: bool,
}

impl Scenario {
    pub fn base(property: &str, campaign: &str, index: u64) -> Scenario {
        Scenario {
            property: property.to_string(),
            campaign: campaign.to_string(),
            index,
            engine: Engine::System,
            sched: Sched { kind: SchedKind::Random, seed: 0, depth: 0 },
            workers: 2,
            request_size: 10000,
            env: vec![],
            yields: vec![],
            tree: TreeSpec::default(),
            conns: vec![],
            probe: Probe::None,
            pool: None,
            disk_fault: None,
            owner_ops: vec![],
            boot: None,
        }
    }
}
