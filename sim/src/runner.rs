//! Fork-per-run: the parent side (tree, fork, wait, crash verdicts) and the child side
//! (environment, panic hook, one shuttle execution, report, `_exit`).

use crate::oracle;
use crate::outcome::*;
use crate::rt::{self, End, PanicRec, PANICS};
use crate::scenario::*;
use crate::tree;
use crate::world;
use std::io::Read;
use std::os::unix::io::FromRawFd;
use std::path::{Path, PathBuf};
use std::sync::Arc;

pub const STACK_SIZE: usize = 2 * 1024 * 1024; // what std gives a worker spawned without stack_size
/// a run is capped by the CPU time of its child (independent of how busy the machine is); the
/// wall-clock cap is only a backstop for a child that blocks without using the CPU
pub const CHILD_CPU_CAP_S: u64 = 30;
pub const CHILD_WALL_CAP_MS: i32 = 240_000;
/// pipe to the parent, for the few places that have to give up from deep inside the world
pub static RESULT_FD: std::sync::atomic::AtomicI32 = std::sync::atomic::AtomicI32::new(-1);

pub fn step_bound(sc: &Scenario) -> usize {
    match sc.engine {
        Engine::Pool => 60_000 + sc.pool.as_ref().map(|p| 4_000 * p.size + 120 * p.tasks.len()).unwrap_or(0),
        _ => {
            // a response accepted k bytes at a time costs a few steps per piece
            let pieces: usize = sc
                .conns
                .iter()
                .map(|c| match c.faults.cuts {
                    Cuts::Every(k) => 12 * (40_000 / k.max(1)),
                    _ => 0,
                })
                .sum();
            600_000 + 4_000 * sc.conns.len().min(400) + 300 * sc.conns.len() + pieces
        }
    }
}

pub struct RunCtx {
    pub base: PathBuf,
    pub trace: bool,
    /// take a manifest of the scratch base before and after (C13)
    pub manifest: bool,
    last_tree: Option<TreeSpec>,
    root: PathBuf,
}

impl RunCtx {
    pub fn new(base: PathBuf) -> RunCtx {
        RunCtx { base, trace: false, manifest: false, last_tree: None, root: PathBuf::new() }
    }
}

fn write_all_fd(fd: i32, mut b: &[u8]) {
    while !b.is_empty() {
        let n = unsafe { libc::write(fd, b.as_ptr() as *const libc::c_void, b.len()) };
        if n <= 0 {
            break;
        }
        b = &b[n as usize..];
    }
}

pub fn run_one(ctx: &mut RunCtx, sc: &Scenario) -> Outcome {
    // tree (rebuilt only when it differs from the previous run's; the served tree is read-only
    // for a correct server, and C13 runs always rebuild)
    if sc.engine != Engine::Pool {
        let same = ctx.last_tree.as_ref() == Some(&sc.tree) && !ctx.manifest;
        if !same {
            match tree::build(&ctx.base, &sc.tree) {
                Ok(r) => {
                    ctx.root = r;
                    ctx.last_tree = Some(sc.tree.clone());
                }
                Err(e) => {
                    ctx.last_tree = None;
                    return Outcome { harness_error: Some(format!("tree: {}", e)), ..Default::default() };
                }
            }
        }
    } else {
        ctx.root = ctx.base.clone();
        let _ = std::fs::create_dir_all(&ctx.base);
    }
    // (when the owner changes the tree during the run, only the armed monitor can tell the server's
    // doing from the owner's: no before / after comparison)
    let before = if ctx.manifest && sc.owner_ops.is_empty() { Some(tree::manifest(&ctx.base)) } else { None };
    if !sc.owner_ops.is_empty() || sc.disk_fault.as_ref().map(|f| f.op == "touch").unwrap_or(false) {
        ctx.last_tree = None;
    }

    let mut fds = [0i32; 2];
    if unsafe { libc::pipe(fds.as_mut_ptr()) } != 0 {
        return Outcome { harness_error: Some("pipe failed".into()), ..Default::default() };
    }
    let pid = unsafe { libc::fork() };
    if pid < 0 {
        return Outcome { harness_error: Some("fork failed".into()), ..Default::default() };
    }
    if pid == 0 {
        unsafe { libc::close(fds[0]) };
        child_main(sc, &ctx.root, fds[1], ctx.trace);
    }
    unsafe { libc::close(fds[1]) };
    // read with a wall-clock cap
    let mut data = Vec::new();
    let mut timed_out = false;
    {
        let mut f = unsafe { std::fs::File::from_raw_fd(fds[0]) };
        let mut buf = [0u8; 65536];
        loop {
            let mut pfd = libc::pollfd { fd: fds[0], events: libc::POLLIN, revents: 0 };
            let r = unsafe { libc::poll(&mut pfd, 1, CHILD_WALL_CAP_MS) };
            if r == 0 {
                timed_out = true;
                unsafe { libc::kill(pid, libc::SIGKILL) };
                break;
            }
            if r < 0 {
                continue;
            }
            match f.read(&mut buf) {
                Ok(0) => break,
                Ok(n) => data.extend_from_slice(&buf[..n]),
                Err(_) => break,
            }
        }
    }
    let mut status = 0i32;
    unsafe { libc::waitpid(pid, &mut status, 0) };
    let mut out = if timed_out {
        Outcome { harness_error: Some("child exceeded the wall-clock cap".into()), end: "wallclock".into(), ..Default::default() }
    } else if libc::WIFSIGNALED(status) && libc::WTERMSIG(status) == libc::SIGXCPU {
        Outcome { harness_error: Some(format!("child exceeded the CPU-time cap of {} s", CHILD_CPU_CAP_S)), end: "cpu_cap".into(), ..Default::default() }
    } else if libc::WIFSIGNALED(status) {
        let sig = libc::WTERMSIG(status);
        oracle::crash_outcome(sc, sig, &data)
    } else if libc::WEXITSTATUS(status) == EXIT_BUSY_LOOP {
        oracle::busy_loop_outcome(sc)
    } else if libc::WEXITSTATUS(status) == 7 {
        // the code under test did something the simulator cannot model in this run (see
        // Backend::unsupported): no verdict either way
        Outcome { inconclusive: Some(String::from_utf8_lossy(&data).to_string()), end: "not_simulable".into(), ..Default::default() }
    } else if libc::WEXITSTATUS(status) != 0 {
        Outcome {
            harness_error: Some(format!("child exit status {} ({})", libc::WEXITSTATUS(status), String::from_utf8_lossy(&data))),
            end: "child_error".into(),
            ..Default::default()
        }
    } else {
        match serde_json::from_slice::<Outcome>(&data) {
            Ok(o) => o,
            Err(e) => Outcome { harness_error: Some(format!("bad child report: {}", e)), ..Default::default() },
        }
    };
    if let Some(before) = before {
        let after = tree::manifest(&ctx.base);
        oracle::manifest_verdicts(sc, &before, &after, &mut out);
        ctx.last_tree = None;
    }
    out
}

fn classify_abort(panics: &[PanicRec]) -> (End, Option<String>) {
    for p in panics.iter().rev() {
        if p.msg.starts_with("deadlock!") {
            return (End::Deadlock(p.msg.clone()), None);
        }
        if p.msg.starts_with("exceeded max_steps") {
            return (End::StepLimit, None);
        }
    }
    let last = panics.last().map(|p| format!("{}:{}: {}", p.file, p.line, p.msg)).unwrap_or_else(|| "unknown".into());
    (End::Deadlock(String::new()), Some(last))
}

/// differences between the environment the real start-up code produced and the effective
/// configuration of the scenario (Boot.exact): reported as a note of the run
pub static BOOT_DIFF: std::sync::Mutex<Vec<String>> = std::sync::Mutex::new(Vec::new());

/// set while the simulated world runs (not during the harness's own work before and after it)
pub static WORLD_RUNNING: std::sync::atomic::AtomicBool = std::sync::atomic::AtomicBool::new(false);
static XCPU_STAGE: std::sync::atomic::AtomicU64 = std::sync::atomic::AtomicU64::new(0);
static TICKS_AT_HALF: std::sync::atomic::AtomicU64 = std::sync::atomic::AtomicU64::new(0);
pub const EXIT_BUSY_LOOP: i32 = 9;

/// Busy-loop watchdog. A loop of the code under test that never ends and contains no scheduling
/// point cannot be pre-empted by the scheduler; it burns CPU time until the cap. If the world made
/// no step at all during the second half of the cap (15 s of CPU time - clean runs take
/// milliseconds between two steps), the child reports that instead of dying silently.
extern "C" fn on_xcpu(_sig: libc::c_int) {
    use std::sync::atomic::Ordering::SeqCst;
    unsafe {
        if XCPU_STAGE.fetch_add(1, SeqCst) == 0 {
            TICKS_AT_HALF.store(rt::TICKS.load(SeqCst), SeqCst);
            let rl = libc::rlimit { rlim_cur: CHILD_CPU_CAP_S, rlim_max: CHILD_CPU_CAP_S + 2 };
            libc::setrlimit(libc::RLIMIT_CPU, &rl);
            return;
        }
        if WORLD_RUNNING.load(SeqCst) && rt::TICKS.load(SeqCst) == TICKS_AT_HALF.load(SeqCst) {
            libc::_exit(EXIT_BUSY_LOOP);
        }
        libc::signal(libc::SIGXCPU, libc::SIG_DFL);
        libc::raise(libc::SIGXCPU);
    }
}

fn prepare_child(sc: &Scenario, root: &Path, wfd: i32) {
    unsafe {
        // two stages: SIGXCPU after half of the cap notes how far the world has come, SIGXCPU at the
        // cap compares (see on_xcpu)
        let rl = libc::rlimit { rlim_cur: CHILD_CPU_CAP_S / 2, rlim_max: CHILD_CPU_CAP_S + 2 };
        libc::setrlimit(libc::RLIMIT_CPU, &rl);
        libc::signal(libc::SIGXCPU, on_xcpu as usize);
    }
    unsafe {
        // the code under test prints a lot; stdout/stderr must stay open but go nowhere
        let devnull = libc::open(b"/dev/null\0".as_ptr() as *const libc::c_char, libc::O_WRONLY);
        if devnull >= 0 && std::env::var("VERIF_CHILD_STDERR").is_err() {
            libc::dup2(devnull, 1);
            libc::dup2(devnull, 2);
        }
    }
    // knob "short_docroot": the scratch base becomes the root of the file system, so that the served
    // directory's absolute path is what containers have (/root, /o1/o2/root) instead of a long
    // scratch path that no request will ever contain. Not fatal when the process may not do it.
    let mut root = root.to_path_buf();
    if sc.yields.iter().any(|y| y == "short_docroot") && sc.engine != Engine::Pool && !sc.tree.root.is_empty() {
        let depth = sc.tree.root.split('/').filter(|x| !x.is_empty()).count();
        let mut base = Some(root.clone());
        for _ in 0..depth {
            base = base.and_then(|b| b.parent().map(|p| p.to_path_buf()));
        }
        if let Some(base) = base {
            if let Ok(c) = std::ffi::CString::new(base.as_os_str().as_encoded_bytes()) {
                if unsafe { libc::chroot(c.as_ptr()) } == 0 {
                    root = Path::new("/").join(&sc.tree.root);
                }
            }
        }
    }
    if std::env::set_current_dir(&root).is_err() {
        write_all_fd(wfd, b"chdir failed");
        unsafe { libc::_exit(3) };
    }
    // knob "other_user": the server runs as a user who owns none of the files it serves (they stay
    // readable for everybody). Trees with private modes keep the owner.
    if sc.yields.iter().any(|y| y == "other_user") && sc.tree.meta_mode == 0 && sc.owner_ops.is_empty() && sc.engine != Engine::Pool {
        unsafe {
            if libc::geteuid() == 0 {
                libc::setgroups(0, std::ptr::null());
                libc::setresgid(65534, 65534, 65534);
                libc::setresuid(65534, 65534, 65534);
            }
        }
    }
    let keys: Vec<String> = std::env::vars().map(|(k, _)| k).filter(|k| k.starts_with("RWS_CONFIG_")).collect();
    for k in keys {
        std::env::remove_var(k);
    }
    std::env::set_var("RWS_CONFIG_IP", "127.0.0.1");
    std::env::set_var("RWS_CONFIG_PORT", "7878");
    std::env::set_var("RWS_CONFIG_THREAD_COUNT", sc.workers.to_string());
    std::env::set_var("RWS_CONFIG_REQUEST_ALLOCATION_SIZE_IN_BYTES", sc.request_size.to_string());
    // documented defaults (what set_default_values() leaves in the environment at start-up)
    for (k, v) in [
        ("RWS_CONFIG_CORS_ALLOW_ALL", "true"),
        ("RWS_CONFIG_CORS_ALLOW_ORIGINS", ""),
        ("RWS_CONFIG_CORS_ALLOW_CREDENTIALS", ""),
        ("RWS_CONFIG_CORS_ALLOW_HEADERS", ""),
        ("RWS_CONFIG_CORS_ALLOW_METHODS", ""),
        ("RWS_CONFIG_CORS_EXPOSE_HEADERS", ""),
        ("RWS_CONFIG_CORS_MAX_AGE", "86400"),
    ] {
        std::env::set_var(k, v);
    }
    match &sc.boot {
        None => {
            for (k, v) in &sc.env {
                std::env::set_var(k, v);
            }
        }
        Some(boot) => {
            // the real start-up sequence of the shipped binary (entry_point::bootstrap) with the
            // command line of the scenario instead of the simulator's own
            for (k, v) in &boot.env {
                std::env::set_var(k, v);
            }
            rws::entry_point::config_file::override_environment_variables_from_config(None);
            let params = rws::entry_point::command_line_args::CommandLineArgument::get_command_line_arg_list();
            rws::entry_point::command_line_args::CommandLineArgument::_parse(boot.cli.clone(), params);
            if boot.exact {
                for (k, v) in &sc.env {
                    let got = std::env::var(k).unwrap_or_default();
                    if &got != v {
                        BOOT_DIFF.lock().unwrap().push(format!("{}: the start-up code left '{}', the scenario's effective value is '{}'", k, got, v));
                    }
                }
            }
        }
    }
    std::panic::set_hook(Box::new(|info| {
        let (file, line) = info.location().map(|l| (l.file().to_string(), l.line())).unwrap_or(("?".into(), 0));
        let msg = if let Some(s) = info.payload().downcast_ref::<&str>() {
            s.to_string()
        } else if let Some(s) = info.payload().downcast_ref::<String>() {
            s.clone()
        } else {
            "<non-string panic payload>".to_string()
        };
        if std::env::var("VERIF_CHILD_BACKTRACE").is_ok() {
            eprintln!("PANIC pid={} panicking={} {}:{}: {}\n{}", std::process::id(), std::thread::panicking(), file, line, msg, std::backtrace::Backtrace::force_capture());
        }
        // the connection the panicking worker is handling: by the name of the current simulated
        // thread (not asked for panics raised inside the scheduler itself), else the connection of
        // the last transport call
        let who = if file.contains("shuttle") || rt::WORLD.get().is_none() { None } else { shuttle::thread::current().name().map(|s| s.to_string()) };
        let conn = rt::WORLD.get().and_then(|w| w.st.try_lock().ok().and_then(|s| who.as_ref().and_then(|n| s.serving.get(n).copied()).or(s.last_conn)));
        if let Ok(mut p) = PANICS.lock() {
            p.push(PanicRec { file, line, msg, conn });
        }
    }));
}

/// Scenarios with files beyond 1 GiB: the world runs with a soft address-space limit, so that code
/// which reads such a file whole fails its allocation (abort => inconclusive run) instead of
/// exhausting the machine. Lifted again before the oracle maps the (lazily zeroed) model copy.
fn address_space_limit(sc: &Scenario, on: bool) {
    let huge: u64 = sc.tree.entries.iter().map(|e| if let EntryKind::File(Content::Sparse { len, .. }) = &e.kind { *len } else { 0 }).sum();
    if huge <= 1 << 30 {
        return;
    }
    unsafe {
        let mut rl = libc::rlimit { rlim_cur: 0, rlim_max: 0 };
        if libc::getrlimit(libc::RLIMIT_AS, &mut rl) == 0 {
            rl.rlim_cur = if on { (3u64 << 30).min(rl.rlim_max) } else { rl.rlim_max };
            libc::setrlimit(libc::RLIMIT_AS, &rl);
        }
    }
}

/// One shuttle execution of the scenario; `finish` is called from inside the world and must not
/// return. Returns only when shuttle gave up (deadlock, step bound, escaped harness panic).
fn run_world(sc: &Scenario, trace: bool, finish: world::Finish) {
    let mut cfg = shuttle::Config::new();
    cfg.stack_size = STACK_SIZE;
    cfg.failure_persistence = shuttle::FailurePersistence::None;
    cfg.max_steps = shuttle::MaxSteps::FailAfter(step_bound(sc));
    cfg.silence_warnings = true;
    let sc_run = Arc::new(sc.clone());
    let body = move || world::world_main((*sc_run).clone(), trace, finish.clone());
    let seed = sc.sched.seed;
    let _ = std::panic::catch_unwind(std::panic::AssertUnwindSafe(|| match sc.sched.kind {
        SchedKind::Random => {
            shuttle::Runner::new(shuttle::scheduler::RandomScheduler::new_from_seed(seed, 1), cfg).run(body);
        }
        SchedKind::Pct => {
            shuttle::Runner::new(shuttle::scheduler::PctScheduler::new_from_seed(seed, sc.sched.depth.max(1), 1), cfg).run(body);
        }
        SchedKind::RoundRobin => {
            shuttle::Runner::new(shuttle::scheduler::RoundRobinScheduler::new(1), cfg).run(body);
        }
    }));
}

/// Grandchild of a C08 run: a fresh node, one request, the raw response bytes go to the pipe.
pub fn solo_child(sc: &Scenario, wfd: i32) -> ! {
    let finish: world::Finish = Arc::new(move |report| {
        let bytes = report.conns.get(0).map(|c| c.outbound.clone()).unwrap_or_default();
        write_all_fd(wfd, &bytes);
        unsafe { libc::_exit(0) };
    });
    run_world(sc, false, finish);
    unsafe { libc::_exit(1) };
}

pub fn child_main(sc: &Scenario, root: &Path, wfd: i32, trace: bool) -> ! {
    RESULT_FD.store(wfd, std::sync::atomic::Ordering::SeqCst);
    prepare_child(sc, root, wfd);
    if sc.property == "C08" {
        crate::solo::compute(sc);
    }
    let sc_fin = Arc::new(sc.clone());
    address_space_limit(sc, true);
    let finish: world::Finish = Arc::new(move |report| {
        WORLD_RUNNING.store(false, std::sync::atomic::Ordering::SeqCst);
        crate::fsmon::undo_outside_creations();
        crate::fsmon::arm(false);
        address_space_limit(&sc_fin, false);
        let out = oracle::judge(&sc_fin, &report);
        let json = serde_json::to_vec(&out).unwrap_or_else(|e| format!("{{\"harness_error\":\"{}\"}}", e).into_bytes());
        write_all_fd(wfd, &json);
        unsafe { libc::_exit(0) };
    });
    if sc.property == "C13" {
        crate::fsmon::arm(true);
    }
    WORLD_RUNNING.store(true, std::sync::atomic::Ordering::SeqCst);
    run_world(sc, trace, finish);
    WORLD_RUNNING.store(false, std::sync::atomic::Ordering::SeqCst);
    crate::fsmon::arm(false);
    address_space_limit(sc, false);
    // the world never returns normally (finish() exits); we are here because shuttle gave up
    let panics = PANICS.lock().map(|p| p.clone()).unwrap_or_default();
    let (mut end, harness) = classify_abort(&panics);
    if rt::WORLD.get().is_none() {
        write_all_fd(wfd, b"world was never initialised");
        unsafe { libc::_exit(4) };
    }
    if rt::world().st.lock().map(|s| s.server_exited).unwrap_or(false) {
        end = End::ServerExited;
    }
    let report = world::report_after_abort(end);
    let mut out = oracle::judge(sc, &report);
    if let Some(h) = harness {
        // a panic that is neither a scheduler verdict nor inside a seam thread: where was it?
        oracle::abort_panic(sc, &h, &mut out);
    }
    let json = serde_json::to_vec(&out).unwrap_or_default();
    write_all_fd(wfd, &json);
    unsafe { libc::_exit(0) };
}
