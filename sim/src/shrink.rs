//! Minimisation of a failing scenario: fewer connections, faults, workers, tree entries, request
//! bytes, simpler schedule - accepted only while the same violation class recurs.

use crate::outcome::Outcome;
use crate::runner::{run_one, RunCtx};
use crate::scenario::*;
use crate::util::Bytes;

pub struct Shrinker<'a> {
    pub ctx: &'a mut RunCtx,
    pub class: String,
    pub budget: usize,
    pub runs: usize,
}

impl<'a> Shrinker<'a> {
    fn fails(&mut self, sc: &Scenario) -> Option<Outcome> {
        if self.runs >= self.budget {
            return None;
        }
        self.runs += 1;
        let out = run_one(self.ctx, sc);
        if out.harness_error.is_none() && out.verdicts.iter().any(|v| v.class == self.class) {
            Some(out)
        } else {
            None
        }
    }

    fn try_apply(&mut self, cur: &mut Scenario, cand: Scenario) -> bool {
        if cand == *cur || !valid(&cand) {
            return false;
        }
        if self.fails(&cand).is_some() {
            *cur = cand;
            true
        } else {
            false
        }
    }

    pub fn minimise(&mut self, start: &Scenario) -> Scenario {
        let mut cur = start.clone();
        // 1. connections: chunks first, then one by one
        let mut chunk = (cur.conns.len() / 2).max(1);
        loop {
            let mut i = 0;
            while i < cur.conns.len() {
                let mut cand = cur.clone();
                let end = (i + chunk).min(cand.conns.len());
                cand.conns.drain(i..end);
                renumber(&mut cand);
                if !self.try_apply(&mut cur, cand) {
                    i += chunk;
                }
            }
            if chunk == 1 {
                break;
            }
            chunk /= 2;
        }
        // 2. per connection: faults, delivery, client mode, phases
        for i in 0..cur.conns.len() {
            let mut cand = cur.clone();
            cand.conns[i].faults = Faults::default();
            cand.conns[i].delivery.clear();
            cand.conns[i].client = ClientMode::Normal;
            if self.try_apply(&mut cur, cand) {
                continue;
            }
            let mut cand = cur.clone();
            cand.conns[i].delivery.clear();
            self.try_apply(&mut cur, cand);
            let mut cand = cur.clone();
            cand.conns[i].client = ClientMode::Normal;
            self.try_apply(&mut cur, cand);
            let d = Faults::default();
            macro_rules! reset {
                ($f:ident) => {
                    if cur.conns[i].faults.$f != d.$f {
                        let mut cand = cur.clone();
                        cand.conns[i].faults.$f = d.$f.clone();
                        self.try_apply(&mut cur, cand);
                    }
                };
            }
            reset!(accept_err);
            reset!(local_addr_err);
            reset!(peer_addr_err);
            reset!(dup_err);
            reset!(read_errs);
            reset!(cuts);
            reset!(write_fault);
            reset!(write_zero_at);
            reset!(flush_err);
            reset!(handler_err);
            reset!(handler_panic);
        }
        {
            let mut cand = cur.clone();
            for (k, c) in cand.conns.iter_mut().enumerate() {
                c.phase = k as u32;
            }
            self.try_apply(&mut cur, cand);
        }
        // 3. world
        if cur.probe != Probe::None {
            let mut cand = cur.clone();
            cand.probe = Probe::None;
            self.try_apply(&mut cur, cand);
        }
        for w in [1usize, 2] {
            if cur.workers > w && cur.pool.is_none() {
                let mut cand = cur.clone();
                cand.workers = w;
                if self.try_apply(&mut cur, cand) {
                    break;
                }
            }
        }
        if cur.request_size != 10000 {
            let mut cand = cur.clone();
            cand.request_size = 10000;
            self.try_apply(&mut cur, cand);
        }
        if !cur.yields.is_empty() {
            let mut cand = cur.clone();
            cand.yields.clear();
            self.try_apply(&mut cur, cand);
        }
        let mut k = 0;
        while k < cur.env.len() {
            let mut cand = cur.clone();
            cand.env.remove(k);
            if !self.try_apply(&mut cur, cand) {
                k += 1;
            }
        }
        // 4. pool workload
        if cur.pool.is_some() {
            let mut i = 0;
            while i < cur.pool.as_ref().unwrap().tasks.len() {
                let mut cand = cur.clone();
                cand.pool.as_mut().unwrap().tasks.remove(i);
                if !self.try_apply(&mut cur, cand) {
                    i += 1;
                }
            }
            for i in 0..cur.pool.as_ref().unwrap().tasks.len() {
                if matches!(cur.pool.as_ref().unwrap().tasks[i], TaskKind::Long(_)) {
                    let mut cand = cur.clone();
                    cand.pool.as_mut().unwrap().tasks[i] = TaskKind::Instant;
                    self.try_apply(&mut cur, cand);
                }
            }
            // smaller pool (a rendezvous must keep exactly `size` participants)
            loop {
                let p = cur.pool.as_ref().unwrap().clone();
                if p.size <= 1 {
                    break;
                }
                let mut cand = cur.clone();
                {
                    let q = cand.pool.as_mut().unwrap();
                    q.size -= 1;
                    if let Some(k) = q.tasks.iter().position(|t| *t == TaskKind::Rendezvous) {
                        q.tasks.remove(k);
                    }
                }
                cand.workers = cand.pool.as_ref().unwrap().size;
                if !self.try_apply(&mut cur, cand) {
                    break;
                }
            }
            if cur.pool.as_ref().unwrap().submitters > 1 {
                let mut cand = cur.clone();
                cand.pool.as_mut().unwrap().submitters = 1;
                self.try_apply(&mut cur, cand);
            }
        }
        // 5. tree entries (children before parents so that directories empty out)
        let mut i = cur.tree.entries.len();
        while i > 0 {
            i -= 1;
            let mut cand = cur.clone();
            let removed = cand.tree.entries.remove(i);
            // the file the follow-up probe asks for stays (without it the probe's 404 would pass for
            // the violation being minimised)
            if removed.path.ends_with("/probe.txt") {
                continue;
            }
            let prefix = format!("{}/", removed.path);
            if cand.tree.entries.iter().any(|e| e.path.starts_with(&prefix)) {
                continue;
            }
            self.try_apply(&mut cur, cand);
        }
        for i in 0..cur.tree.entries.len() {
            if let EntryKind::File(Content::Gen { marker, len, seed, binary }) = &cur.tree.entries[i].kind {
                if *len > marker.len() + 16 {
                    let mut cand = cur.clone();
                    cand.tree.entries[i].kind =
                        EntryKind::File(Content::Gen { marker: marker.clone(), len: marker.len() + 16, seed: *seed, binary: *binary });
                    self.try_apply(&mut cur, cand);
                }
            }
        }
        // 6. request bytes: header lines, then chunks of the rest
        for i in 0..cur.conns.len() {
            loop {
                let req = cur.conns[i].request.0.clone();
                let lines = split_lines(&req);
                let mut improved = false;
                for li in (1..lines.len()).rev() {
                    let mut v = vec![];
                    for (k, l) in lines.iter().enumerate() {
                        if k != li {
                            v.extend_from_slice(l);
                        }
                    }
                    if v.len() == req.len() {
                        continue;
                    }
                    let mut cand = cur.clone();
                    cand.conns[i].request = Bytes(v);
                    if self.try_apply(&mut cur, cand) {
                        improved = true;
                        break;
                    }
                }
                if !improved {
                    break;
                }
            }
            let mut size = cur.conns[i].request.0.len() / 2;
            while size >= 1 && self.runs < self.budget {
                let mut pos = 0;
                while pos < cur.conns[i].request.0.len() {
                    let req = &cur.conns[i].request.0;
                    let end = (pos + size).min(req.len());
                    let mut v = req[..pos].to_vec();
                    v.extend_from_slice(&req[end..]);
                    let mut cand = cur.clone();
                    cand.conns[i].request = Bytes(v);
                    if !self.try_apply(&mut cur, cand) {
                        pos += size;
                    }
                }
                if size > 64 {
                    size /= 2;
                } else if size > 8 {
                    size = 8;
                } else {
                    break;
                }
            }
        }
        // 7. schedule: the simplest that still fails
        if cur.sched.kind != SchedKind::RoundRobin {
            let mut cand = cur.clone();
            cand.sched = Sched { kind: SchedKind::RoundRobin, seed: 0, depth: 0 };
            if !self.try_apply(&mut cur, cand) {
                for s in 0..16u64 {
                    let mut cand = cur.clone();
                    cand.sched = Sched { kind: SchedKind::Random, seed: s, depth: 0 };
                    if self.try_apply(&mut cur, cand) {
                        break;
                    }
                }
            }
        }
        cur
    }
}

fn renumber(sc: &mut Scenario) {
    let old: Vec<usize> = sc.conns.iter().map(|c| c.id).collect();
    for (k, c) in sc.conns.iter_mut().enumerate() {
        c.id = k;
        c.twin = c.twin.and_then(|t| old.iter().position(|&o| o == t));
        c.revalidate = c.revalidate.and_then(|t| old.iter().position(|&o| o == t));
    }
}

fn split_lines(b: &[u8]) -> Vec<Vec<u8>> {
    let mut out = vec![];
    let mut cur = vec![];
    for &c in b {
        cur.push(c);
        if c == b'\n' {
            out.push(std::mem::take(&mut cur));
        }
    }
    if !cur.is_empty() {
        out.push(cur);
    }
    out
}

/// Constraints a scenario must keep for its oracles to be meaningful.
pub fn valid(sc: &Scenario) -> bool {
    if let Some(p) = &sc.pool {
        let rdv = p.tasks.iter().filter(|t| **t == TaskKind::Rendezvous).count();
        let gated = p.tasks.iter().filter(|t| **t == TaskKind::Gated).count();
        if p.size == 0 || !(rdv == 0 || rdv == p.size) || gated > 1 || (gated == 1 && (p.size < 2 || rdv > 0)) {
            return false;
        }
        // rounds: every round present has exactly `size` participants, in submission order, one submitter
        let mut counts: std::collections::BTreeMap<u32, usize> = Default::default();
        let mut last = 0u32;
        for t in &p.tasks {
            if let TaskKind::Round(r) = t {
                if *r < last {
                    return false;
                }
                last = *r;
                *counts.entry(*r).or_insert(0) += 1;
            }
        }
        if !counts.is_empty() && (counts.values().any(|c| *c != p.size) || p.submitters > 1 || rdv > 0 || gated > 0) {
            return false;
        }
    }
    true
}
