//! C08: the reference for every distinct request of a run is the response that request gets
//! alone, from a fresh node process on the same tree and configuration.

use crate::scenario::*;
use std::collections::HashMap;
use std::io::Read;
use std::os::unix::io::FromRawFd;
use std::sync::OnceLock;

static REFS: OnceLock<HashMap<Vec<u8>, Vec<u8>>> = OnceLock::new();

pub fn references() -> &'static HashMap<Vec<u8>, Vec<u8>> {
    static EMPTY: OnceLock<HashMap<Vec<u8>, Vec<u8>>> = OnceLock::new();
    REFS.get().unwrap_or_else(|| EMPTY.get_or_init(HashMap::new))
}

/// Runs in the child (cwd and environment already set), before the simulated world starts.
pub fn compute(sc: &Scenario) {
    let mut map: HashMap<Vec<u8>, Vec<u8>> = HashMap::new();
    for c in &sc.conns {
        if !c.strict() || map.contains_key(&c.request.0) || map.len() >= 12 {
            continue;
        }
        let mut one = sc.clone();
        one.conns = vec![Conn { id: 0, phase: 0, twin: None, revalidate: None, ..c.clone() }];
        one.probe = Probe::None;
        one.yields.clear();
        one.sched = Sched { kind: SchedKind::RoundRobin, seed: 0, depth: 0 };
        let mut fds = [0i32; 2];
        if unsafe { libc::pipe(fds.as_mut_ptr()) } != 0 {
            continue;
        }
        let pid = unsafe { libc::fork() };
        if pid < 0 {
            continue;
        }
        if pid == 0 {
            unsafe { libc::close(fds[0]) };
            crate::runner::solo_child(&one, fds[1]);
        }
        unsafe { libc::close(fds[1]) };
        let mut data = vec![];
        {
            let mut f = unsafe { std::fs::File::from_raw_fd(fds[0]) };
            let _ = f.read_to_end(&mut data);
        }
        let mut status = 0;
        unsafe { libc::waitpid(pid, &mut status, 0) };
        if libc::WIFEXITED(status) && libc::WEXITSTATUS(status) == 0 {
            map.insert(c.request.0.clone(), data);
        }
    }
    let _ = REFS.set(map);
}
