//! Conclusion of a check: known findings, minimisation, replay files, evidence, exit code.

use crate::gen::Tier;
use crate::outcome::*;
use crate::runner::RunCtx;
use crate::scenario::*;
use crate::shrink::Shrinker;
use crate::util::{escape_trunc, hash_str};
use crate::CheckCfg;
use serde::{Deserialize, Serialize};
use serde_json::json;
use std::path::Path;
use std::time::Instant;

pub const CLAIMED: &[&str] = &["C01", "C02", "C03", "C04", "C05", "C06", "C07", "C08", "C09", "C10", "C11", "C13"];

#[derive(Serialize, Deserialize, Clone, Debug)]
pub struct ReplayFile {
    pub property: String,
    pub class: String,
    pub detail: String,
    pub seed: u64,
    pub sig: u64,
    pub minimised_from: serde_json::Value,
    pub scenario: Scenario,
}

#[derive(Deserialize, Clone, Debug)]
pub struct Finding {
    pub property: String,
    pub class: String,
    pub status: String,
    #[serde(default)]
    pub commit: Option<String>,
    pub what: String,
}

#[derive(Deserialize, Clone, Debug, Default)]
pub struct Findings {
    pub findings: Vec<Finding>,
}

pub fn load_findings() -> Result<Findings, String> {
    let p = format!("{}/known_findings.json", crate::verif_dir());
    match std::fs::read(&p) {
        Ok(d) => serde_json::from_slice(&d).map_err(|e| format!("{}: {}", p, e)),
        Err(_) => Ok(Findings::default()),
    }
}

fn conn_summary(c: &Conn) -> serde_json::Value {
    let mut m = serde_json::Map::new();
    m.insert("phase".into(), json!(c.phase));
    m.insert("class".into(), json!(c.class));
    m.insert("request".into(), json!(escape_trunc(&c.request.0, 160)));
    if !c.delivery.is_empty() {
        m.insert("segments".into(), json!(c.delivery.iter().map(|s| s.len).collect::<Vec<_>>()));
    }
    if c.client != ClientMode::Normal {
        m.insert("client".into(), json!(format!("{:?}", c.client)));
    }
    if !c.faults.is_clean() {
        m.insert("faults".into(), serde_json::to_value(&c.faults).unwrap_or(json!(null)));
    }
    serde_json::Value::Object(m)
}

/// One explored case written out for the evidence file.
pub fn sample(sc: &Scenario, out: &Outcome) -> serde_json::Value {
    let mut m = serde_json::Map::new();
    m.insert("campaign".into(), json!(sc.campaign));
    m.insert("index".into(), json!(sc.index));
    m.insert("engine".into(), json!(format!("{:?}", sc.engine)));
    m.insert("scheduler".into(), json!(format!("{:?} seed={} depth={}", sc.sched.kind, sc.sched.seed, sc.sched.depth)));
    m.insert("workers".into(), json!(sc.workers));
    m.insert("request_buffer".into(), json!(sc.request_size));
    if !sc.env.is_empty() {
        m.insert("env".into(), json!(sc.env));
    }
    if !sc.yields.is_empty() {
        m.insert("stage_yields".into(), json!(sc.yields));
    }
    if let Some(p) = &sc.pool {
        m.insert("pool".into(), json!({"size": p.size, "submitters": p.submitters, "tasks": p.tasks.iter().map(|t| format!("{:?}", t)).collect::<Vec<_>>() }));
    } else {
        m.insert("tree_root".into(), json!(sc.tree.root));
        m.insert("tree_entries".into(), json!(sc.tree.entries.len()));
        m.insert(
            "tree_sample".into(),
            json!(sc
                .tree
                .entries
                .iter()
                .take(6)
                .map(|e| match &e.kind {
                    EntryKind::Dir => format!("{}/", e.path),
                    EntryKind::File(c) => format!("{} ({} bytes)", e.path, c.len()),
                    EntryKind::Symlink(t) => format!("{} -> {}", e.path, t),
                })
                .collect::<Vec<_>>()),
        );
        m.insert("connections".into(), json!(sc.conns.iter().take(5).map(conn_summary).collect::<Vec<_>>()));
        m.insert("connection_count".into(), json!(sc.conns.len()));
        m.insert("probe".into(), json!(match &sc.probe { Probe::None => "none", Probe::FollowUp { .. } => "follow_up", Probe::Capacity { .. } => "capacity" }));
    }
    m.insert("end".into(), json!(out.end));
    m.insert("event_log_hash".into(), json!(format!("{:016x}", out.sig)));
    m.insert("events".into(), json!(out.events));
    m.insert("scheduler_steps".into(), json!(out.steps));
    m.insert("verdict_classes".into(), json!(out.verdicts.iter().map(|v| v.class.clone()).collect::<Vec<_>>()));
    serde_json::Value::Object(m)
}

fn level_of(prop: &str) -> &'static str {
    match prop {
        "C05" | "C06" => "fault_enumeration",
        _ => "exploration",
    }
}

pub fn conclude(cfg: &CheckCfg, mut agg: Agg, scratch: &Path, started: Instant) -> i32 {
    let prop = cfg.prop.as_str();
    if !agg.harness_errors.is_empty() {
        for h in &agg.harness_errors {
            eprintln!("HARNESS-ERROR: {}", h);
        }
        return 2;
    }
    let findings = match load_findings() {
        Ok(f) => f,
        Err(e) => {
            eprintln!("HARNESS-ERROR: {}", e);
            return 2;
        }
    };
    let mut known_lines = vec![];
    let mut known_matched = vec![];
    let mut unknown: Vec<ViolationRec> = vec![];
    for (class, rec) in &agg.violations {
        match findings.findings.iter().find(|f| f.property == prop && f.class == *class && f.status == "known") {
            Some(f) => {
                known_lines.push(format!("KNOWN-FINDING: property={} class={} ({} runs) {}", prop, class, rec.count, f.what));
                known_matched.push(json!({"class": class, "runs": rec.count, "what": f.what}));
            }
            None => unknown.push(rec.clone()),
        }
    }
    for l in &known_lines {
        println!("{}", l);
    }
    // minimise and persist what is not listed
    let mut violation_lines = vec![];
    let mut violations_json = vec![];
    if !unknown.is_empty() {
        let dir = format!("{}/replays", crate::verif_dir());
        let _ = std::fs::create_dir_all(&dir);
        let mut ctx = RunCtx::new(scratch.join("shr"));
        ctx.manifest = prop == "C13";
        for (k, rec) in unknown.iter().enumerate() {
            let (minimal, runs) = if k < 12 {
                let mut sh = Shrinker { ctx: &mut ctx, class: rec.class.clone(), budget: if rec.class.ends_with("busy_loop") { 6 } else { 300 }, runs: 0 }; // (a busy-loop run costs the whole CPU cap)
                let m = sh.minimise(&rec.scenario);
                (m, sh.runs)
            } else {
                (rec.scenario.clone(), 0)
            };
            // re-run the minimal scenario to record its hash and detail
            let out = crate::runner::run_one(&mut ctx, &minimal);
            let (detail, sig, scen) = match out.verdicts.iter().find(|v| v.class == rec.class) {
                Some(v) => (v.detail.clone(), out.sig, minimal),
                None => {
                    // the original failing scenario must reproduce, or the harness is not deterministic
                    let again = crate::runner::run_one(&mut ctx, &rec.scenario);
                    match again.verdicts.iter().find(|v| v.class == rec.class) {
                        Some(v) => (v.detail.clone(), again.sig, rec.scenario.clone()),
                        None if prop == "C13" => {
                            // a side effect outside the scratch tree (the very thing C13 is about) can
                            // change what the next run of the same scenario does
                            (format!("{} [not reproduced when the scenario was run again: the first run's effect outside the scratch tree may persist]", rec.detail), rec.sig, rec.scenario.clone())
                        }
                        None => {
                            eprintln!("HARNESS-ERROR: violation {} of {}#{} did not reproduce when re-run", rec.class, rec.campaign, rec.first_index);
                            return 2;
                        }
                    }
                }
            };
            let file = format!("{}/{}-{}-{:08x}.json", dir, prop, cfg.seed, hash_str(&rec.class) as u32);
            let rf = ReplayFile {
                property: prop.to_string(),
                class: rec.class.clone(),
                detail: detail.clone(),
                seed: cfg.seed,
                sig,
                minimised_from: json!({"campaign": rec.campaign, "index": rec.first_index, "connections": rec.scenario.conns.len(), "tree_entries": rec.scenario.tree.entries.len(), "shrink_runs": runs, "runs_with_this_class": rec.count}),
                scenario: scen,
            };
            if let Err(e) = std::fs::write(&file, serde_json::to_vec_pretty(&rf).unwrap_or_default()) {
                eprintln!("HARNESS-ERROR: cannot write {}: {}", file, e);
                return 2;
            }
            println!("  violation class {} ({} runs; first {}#{}): {}", rec.class, rec.count, rec.campaign, rec.first_index, detail);
            violation_lines.push(format!("VIOLATION property={} replay={}", prop, file));
            violations_json.push(json!({"class": rec.class, "runs": rec.count, "detail": detail, "replay": file}));
        }
    }
    crate::tree::remove_all(&scratch.join("shr"));

    let wall = started.elapsed().as_secs_f64();
    // reach probes stuck at zero are a defect of the workload
    let mut warnings = vec![];
    for k in expected_reach(prop) {
        if agg.reach.get(*k).copied().unwrap_or(0) == 0 {
            warnings.push(format!("reach probe '{}' was never hit", k));
        }
    }
    for w in &warnings {
        println!("WARNING: {}", w);
    }
    for n in &agg.notes {
        println!("NOTE: {}", n);
    }

    let samples: Vec<serde_json::Value> = std::mem::take(&mut agg.samples);
    let exhaustive = !agg.exhaustive_campaigns.is_empty() && cfg.tier == Tier::Quick;
    let ev = json!({
        "property_id": prop,
        "tier": if cfg.tier == Tier::Quick { "quick" } else { "thorough" },
        "seed": cfg.seed,
        "level": level_of(prop),
        "coverage": {
            "evaluations": agg.evaluations,
            "distinct_nontrivial": agg.sigs.len(),
            "rule": rule_text(prop),
            "samples": samples,
            "exhaustive": exhaustive,
            "exhaustive_campaigns": agg.exhaustive_campaigns,
            "runs_with_an_oracle_of_this_property_evaluated": agg.evaluated,
            "inconclusive_runs": agg.inconclusive,
            "inconclusive_reasons": agg.inconclusive_reasons,
            "runs_per_campaign": agg.campaigns,
            "runs_per_hour": if wall > 0.0 { (agg.evaluations as f64 / wall * 3600.0) as u64 } else { 0 },
            "seeds": {"base_seed": cfg.seed, "derivation": "run seed = mix(VERIF_SEED, property, campaign, index)"},
            "simulated_time": {"scheduler_steps": agg.steps, "logical_clock_ticks": agg.clock, "transport_and_sync_events": agg.events,
                               "note": "rws has no timers; simulated time is logical (scheduler steps, clock reads, events)"},
            "faults_fired": agg.fired,
            "reach_probes": agg.reach,
            "response_kinds": agg.kinds,
            "schedulers": agg.schedulers,
            "run_endings": agg.ends,
            "components": components(prop),
            "known_findings_matched": known_matched,
            "violations": violations_json,
            "warnings": warnings,
            "notes": agg.notes,
        },
        "assumptions": assumptions(prop),
        "wall_s": wall,
        "violations": violation_lines.len(),
    });
    let dir = format!("{}/evidence", crate::verif_dir());
    let _ = std::fs::create_dir_all(&dir);
    let path = format!("{}/{}.json", dir, prop);
    if let Err(e) = std::fs::write(&path, serde_json::to_vec_pretty(&ev).unwrap_or_default()) {
        eprintln!("HARNESS-ERROR: cannot write {}: {}", path, e);
        return 2;
    }
    println!(
        "{}: {} runs ({} with oracle evaluated, {} inconclusive), {} distinct event-order signatures, {:.1}s, {} known finding class(es), {} new violation class(es)",
        prop,
        agg.evaluations,
        agg.evaluated,
        agg.inconclusive,
        agg.sigs.len(),
        wall,
        known_lines.len(),
        violation_lines.len()
    );
    let not_simulable: u64 = agg.ends.get("not_simulable").copied().unwrap_or(0);
    if not_simulable * 5 > agg.evaluations {
        eprintln!("HARNESS-ERROR: {} of {} runs could not be simulated ({:?})", not_simulable, agg.evaluations, agg.inconclusive_reasons.keys().next());
        return 2;
    }
    if agg.sigs.len() < 2 || agg.evaluated == 0 {
        eprintln!("HARNESS-ERROR: the run evaluated the property on fewer than 2 distinct cases");
        return 2;
    }
    for l in &violation_lines {
        println!("{}", l);
    }
    if violation_lines.is_empty() {
        0
    } else {
        1
    }
}

fn expected_reach(prop: &str) -> &'static [&'static str] {
    match prop {
        "C07" => &["rendezvous_of_n_completed", "others_completed_while_gated_task_held", "n_tasks_inside_simultaneously"],
        _ => &[],
    }
}

fn components(prop: &str) -> serde_json::Value {
    if prop == "C07" {
        return json!({
            "real": ["rws::thread_pool::ThreadPool::new/execute and the worker loop (on shuttle-modelled Mutex/mpsc/thread: std::sync / std::thread routed through the seam of src/verif/mod.rs in the mirrored copy of /repo/src)"],
            "modelled": ["Mutex, mpsc channel, thread spawn and scheduling: shuttle 0.9.3"],
            "stub": ["jobs are harness closures (instant / long / rendezvous-of-N / gated / panicking); the owner drops the pool after the last hand-over in a share of the runs"]
        });
    }
    json!({
        "real": ["ThreadPool and worker loop", "Server::run accept loop (System engine)", "Server::process / Server::process_request", "Request, Response, App and all controllers, Range, Cors, Header, MimeType, Log", "file-ext, url-build-parse, url-search-params", "kernel filesystem (private scratch tree per run)"],
        "simulated": ["TcpListener/TcpStream (in-memory, fault-injecting)", "clock (clock_gettime interposed: logical time that jumps ahead by up to two minutes; knob)", "disk calls of the code under test (open/read/pread/lseek/statx/chdir interposed: scheduling points and one injected fault per run - early end of file, EIO, EACCES, EMFILE, ENOENT ...)", "process environment (reads and writes are scheduling points)", "clients (harness tasks, incl. a revalidating client)", "the owner of the served directory (removes / replaces the tree between phases in a share of the C13 runs)"],
        "modelled": ["Mutex, RwLock, Condvar, atomics, mpsc, thread scheduling, thread-locals anywhere in the crate: shuttle 0.9.3 (every std::sync / std::thread / std::env / thread_local! path of /repo/src is routed through src/verif/mod.rs by tools/mirror.sh)"],
        "stub": ["Application wrapper returning Err on scripted connections (delegates to the real App otherwise)", "legacy node: harness accept loop around the real Server::process_request"],
        "real_before_the_world_starts": ["entry_point::config_file::override_environment_variables_from_config and CommandLineArgument::_parse on a generated rws.config.toml and command line (Scenario.boot; a share of the C05 / C09 / C11 runs)"],
        "platform_knobs": ["wall-clock epoch per run (calendar corners)", "simulated sleep and processor count", "file modes, hard links, calendar modification times", "short docroot path (chroot)", "server user that owns no file (uid 65534)", "client addresses with shared source ports / IPv6", "failing standard output (C13)", "dup failure", "owner touching a file inside a request", "threads held back before synchronisation operations"],
        "not_run": ["main, Server::setup (start-up; property C12 is not applicable)"]
    })
}

fn assumptions(_prop: &str) -> Vec<&'static str> {
    vec![
        "shuttle's models of Mutex, mpsc and thread match std semantics",
        "task switches happen at synchronisation operations, transport calls, stage hooks, environment accesses and (knob) file system calls, not between arbitrary instructions",
        "OnceLock / LazyLock and grouped imports such as `use std::{sync, env}` are not routed through the seam",
        "the simulated transport's fault kinds stand for kernel TCP behaviour",
        "sampling, not proof: a clean batch is evidence for the explored seeds only",
    ]
}

fn rule_text(prop: &str) -> String {
    let common = " A case is one simulated run (one forked child, one schedule). Distinct = distinct event-order signature: hash of the ordered log of (task, transport/sync/stage event, connection, result class); only runs in which an oracle of this property was evaluated are counted.";
    let own = match prop {
        "C07" => "Pool engine: real ThreadPool, size 1..8 (now and then 16..257), 0..4N tasks (instant, long, rendezvous of N, one gated slow task, panicking), 1..2 submitters, pool dropped after the last hand-over in a share of the runs, simulated clock in half of them, floods of up to 66 000 tasks, thousands of rendezvous rounds; Random/PCT(1..3)/round-robin schedules from the run seed.",
        _ => "Seeded scenario generators (campaigns listed under runs_per_campaign; exhaustive ones under exhaustive_campaigns); see DESIGN.md section 6 and appendices B, D.3, D.4 for this property.",
    };
    format!("{}{}", own, common)
}
