//! In-process filesystem-mutation monitor (C13). The harness binary defines the libc entry
//! points through which std (statically linked into this executable) performs mutations; the
//! real operation is made by raw syscall. While the monitor is armed - between "node started" and
//! "world ended" in a simulated run - every such call is recorded.

use libc::{c_char, c_int, mode_t};
use std::ffi::CStr;
use std::sync::atomic::{AtomicBool, AtomicUsize, Ordering};
use std::sync::Mutex;

static ARMED: AtomicBool = AtomicBool::new(false);
/// when set (inside a simulated world whose scenario enables the "file_io" yield), every file
/// open / read / seek / stat of the code under test is a scheduling point: the disk I/O seam
static IO_YIELD: AtomicBool = AtomicBool::new(false);

/// when set, clock_gettime answers from the simulated clock (scenario knob "clock")
static SIM_CLOCK: AtomicBool = AtomicBool::new(false);

/// standard output of the code under test: 0 works; otherwise every write to it fails with the errno
/// stored here once `STDOUT_AFTER` more writes have succeeded (the reader of `rws | tee` went away,
/// the volume of the redirected log is full, the terminal was hung up) - scenario knob "stdout_gone"
static STDOUT_ERRNO: std::sync::atomic::AtomicI32 = std::sync::atomic::AtomicI32::new(0);
static STDOUT_AFTER: std::sync::atomic::AtomicI64 = std::sync::atomic::AtomicI64::new(0);
pub static STDOUT_FAILED: std::sync::atomic::AtomicU64 = std::sync::atomic::AtomicU64::new(0);

pub fn stdout_gone(errno: i32, after: i64) {
    STDOUT_AFTER.store(after, Ordering::SeqCst);
    STDOUT_ERRNO.store(errno, Ordering::SeqCst);
}

unsafe fn stdout_fault(fd: c_int) -> bool {
    if fd != 1 {
        return false;
    }
    let e = STDOUT_ERRNO.load(Ordering::Relaxed);
    if e == 0 || STDOUT_AFTER.fetch_sub(1, Ordering::Relaxed) > 0 {
        return false;
    }
    STDOUT_FAILED.fetch_add(1, Ordering::Relaxed);
    *libc::__errno_location() = e;
    true
}

#[no_mangle]
pub unsafe extern "C" fn write(fd: c_int, buf: *const libc::c_void, count: usize) -> isize {
    if stdout_fault(fd) {
        return -1;
    }
    libc::syscall(libc::SYS_write, fd, buf, count) as isize
}

#[no_mangle]
pub unsafe extern "C" fn writev(fd: c_int, iov: *const libc::iovec, n: c_int) -> isize {
    if stdout_fault(fd) {
        return -1;
    }
    libc::syscall(libc::SYS_writev, fd, iov, n) as isize
}

pub fn sim_clock(on: bool) {
    SIM_CLOCK.store(on, Ordering::SeqCst);
}

#[no_mangle]
pub unsafe extern "C" fn clock_gettime(clk: libc::clockid_t, ts: *mut libc::timespec) -> c_int {
    if SIM_CLOCK.load(Ordering::Relaxed) && !ts.is_null() && (clk == libc::CLOCK_MONOTONIC || clk == libc::CLOCK_REALTIME || clk == libc::CLOCK_MONOTONIC_RAW || clk == libc::CLOCK_BOOTTIME) {
        if let Some(w) = crate::rt::WORLD.get() {
            if let Some(ns) = w.clock_read(clk == libc::CLOCK_REALTIME) {
                (*ts).tv_sec = (ns / 1_000_000_000) as libc::time_t;
                (*ts).tv_nsec = (ns % 1_000_000_000) as libc::c_long;
                return 0;
            }
        }
    }
    libc::syscall(libc::SYS_clock_gettime, clk, ts) as c_int
}

pub fn io_yields(on: bool) {
    IO_YIELD.store(on, Ordering::SeqCst);
}

#[inline]
fn io_point(kind: &'static str) {
    if IO_YIELD.load(Ordering::Relaxed) && !std::thread::panicking() {
        if let Some(w) = crate::rt::WORLD.get() {
            w.io_point(kind);
        }
    }
}
// ------------------------------------------------------------------ disk faults (Scenario.disk_fault)
static FAULT_OP: AtomicUsize = AtomicUsize::new(0); // 0 none, 1 read, 2 open, 3 stat, 4 seek
static FAULT_NTH: AtomicUsize = AtomicUsize::new(0);
static FAULT_ERRNO: AtomicUsize = AtomicUsize::new(0); // 0 = end of file
static FAULT_STICKY: AtomicBool = AtomicBool::new(false);
static FAULT_COUNT: AtomicUsize = AtomicUsize::new(0);
static FAULT_FD: std::sync::atomic::AtomicI32 = std::sync::atomic::AtomicI32::new(-1);

pub fn set_disk_fault(f: Option<&crate::scenario::DiskFault>) {
    FAULT_COUNT.store(0, Ordering::SeqCst);
    match f {
        None => FAULT_OP.store(0, Ordering::SeqCst),
        Some(f) => {
            FAULT_NTH.store(f.nth as usize, Ordering::SeqCst);
            FAULT_STICKY.store(f.sticky, Ordering::SeqCst);
            FAULT_ERRNO.store(
                match f.kind.as_str() {
                    "eof" => 0,
                    "EACCES" => libc::EACCES,
                    "EMFILE" => libc::EMFILE,
                    "ENOENT" => libc::ENOENT,
                    "EINTR" => libc::EINTR,
                    "ENOMEM" => libc::ENOMEM,
                    "EISDIR" => libc::EISDIR,
                    _ => libc::EIO,
                } as usize,
                Ordering::SeqCst,
            );
            // (op "touch": not a failure - right before the nth stat the owner gives the file a new
            // modification time, as a deploy or `touch` landing inside a request does)
            FAULT_OP.store(match f.op.as_str() { "read" => 1, "open" => 2, "stat" => 3, "seek" => 4, "touch" => 5, _ => 0 }, Ordering::SeqCst);
        }
    }
}

/// no new fault from here on (the probe phase); a descriptor that already fails keeps failing
pub fn stop_new_disk_faults() {
    FAULT_OP.store(0, Ordering::SeqCst);
}

/// Some(return value) when this call is the one to fail
fn disk_fault(op: usize, fd: c_int) -> Option<isize> {
    let ret = || -> isize {
        let e = FAULT_ERRNO.load(Ordering::Relaxed);
        if e == 0 {
            0
        } else {
            unsafe { *libc::__errno_location() = e as c_int };
            -1
        }
    };
    if op == 1 && fd >= 0 && fd == FAULT_FD.load(Ordering::Relaxed) {
        return Some(ret());
    }
    if FAULT_OP.load(Ordering::Relaxed) != op || std::thread::panicking() {
        return None;
    }
    let w = crate::rt::WORLD.get()?;
    let c = FAULT_COUNT.fetch_add(1, Ordering::SeqCst) + 1;
    if c != FAULT_NTH.load(Ordering::Relaxed) {
        return None;
    }
    if op == 1 && FAULT_STICKY.load(Ordering::Relaxed) {
        FAULT_FD.store(fd, Ordering::SeqCst);
    }
    w.disk_fault_fired(op, FAULT_ERRNO.load(Ordering::Relaxed));
    Some(ret())
}

fn fd_opened(fd: c_int) -> c_int {
    if fd >= 0 && fd == FAULT_FD.load(Ordering::Relaxed) {
        FAULT_FD.store(-1, Ordering::SeqCst);
    }
    fd
}

static SEEN_ANY: AtomicUsize = AtomicUsize::new(0);
static EVENTS: Mutex<Vec<String>> = Mutex::new(Vec::new());
/// absolute paths the code under test created outside the run's tree while the monitor was armed
/// (undone at the end of the run so that a replay starts from the same outside world)
static CREATED: Mutex<Vec<(String, bool)>> = Mutex::new(Vec::new());

pub fn arm(on: bool) {
    ARMED.store(on, Ordering::SeqCst);
}

pub fn is_armed() -> bool {
    ARMED.load(Ordering::SeqCst)
}

fn note_created(path: *const c_char, is_dir: bool) {
    if !ARMED.load(Ordering::SeqCst) || path.is_null() {
        return;
    }
    let p = unsafe { CStr::from_ptr(path) }.to_string_lossy().to_string();
    if p.starts_with('/') {
        if let Ok(mut c) = CREATED.try_lock() {
            if c.len() < 64 {
                c.push((p, is_dir));
            }
        }
    }
}

fn exists(path: *const c_char) -> bool {
    let mut st: libc::stat = unsafe { std::mem::zeroed() };
    unsafe { libc::syscall(libc::SYS_newfstatat, libc::AT_FDCWD, path, &mut st as *mut libc::stat, libc::AT_SYMLINK_NOFOLLOW) == 0 }
}

/// remove what the run created at absolute paths (best effort, newest first)
pub fn undo_outside_creations() {
    let list = CREATED.lock().map(|mut c| std::mem::take(&mut *c)).unwrap_or_default();
    for (p, is_dir) in list.into_iter().rev() {
        if let Ok(c) = std::ffi::CString::new(p) {
            unsafe {
                libc::syscall(libc::SYS_unlinkat, libc::AT_FDCWD, c.as_ptr(), if is_dir { libc::AT_REMOVEDIR } else { 0 });
            }
        }
    }
}

pub fn take_events() -> Vec<String> {
    EVENTS.lock().map(|mut e| std::mem::take(&mut *e)).unwrap_or_default()
}

fn record(op: &str, path: *const c_char, extra: &str) {
    SEEN_ANY.fetch_add(1, Ordering::SeqCst);
    if !ARMED.load(Ordering::SeqCst) {
        return;
    }
    let p = if path.is_null() { "<null>".to_string() } else { unsafe { CStr::from_ptr(path) }.to_string_lossy().to_string() };
    // (device nodes and /proc are not files of anybody's; the memory file system below /dev/shm is)
    if p == "/dev/null" || p.starts_with("/proc/") || (p.starts_with("/dev/") && !p.starts_with("/dev/shm/")) {
        return;
    }
    if let Ok(mut e) = EVENTS.try_lock() {
        if e.len() < 16 {
            e.push(format!("{} {}{}", op, p, extra));
        }
    }
}

fn is_mutating_open(flags: c_int) -> bool {
    let acc = flags & libc::O_ACCMODE;
    acc == libc::O_WRONLY || acc == libc::O_RDWR || flags & (libc::O_CREAT | libc::O_TRUNC | libc::O_APPEND) != 0 || (flags & libc::O_TMPFILE) == libc::O_TMPFILE
}

#[no_mangle]
pub unsafe extern "C" fn open64(path: *const c_char, flags: c_int, mode: mode_t) -> c_int {
    if is_mutating_open(flags) {
        record("open_for_write", path, &format!(" flags={:#x}", flags));
        if flags & libc::O_CREAT != 0 && !exists(path) {
            note_created(path, false);
        }
    }
    io_point("open");
    if let Some(r) = disk_fault(2, -1) {
        return r as c_int;
    }
    fd_opened(libc::syscall(libc::SYS_openat, libc::AT_FDCWD, path, flags | libc::O_LARGEFILE, mode as c_int) as c_int)
}

#[no_mangle]
pub unsafe extern "C" fn open(path: *const c_char, flags: c_int, mode: mode_t) -> c_int {
    if is_mutating_open(flags) {
        record("open_for_write", path, &format!(" flags={:#x}", flags));
    }
    io_point("open");
    if let Some(r) = disk_fault(2, -1) {
        return r as c_int;
    }
    fd_opened(libc::syscall(libc::SYS_openat, libc::AT_FDCWD, path, flags, mode as c_int) as c_int)
}

#[no_mangle]
pub unsafe extern "C" fn openat64(dirfd: c_int, path: *const c_char, flags: c_int, mode: mode_t) -> c_int {
    if is_mutating_open(flags) {
        record("open_for_write", path, &format!(" flags={:#x}", flags));
    }
    libc::syscall(libc::SYS_openat, dirfd, path, flags | libc::O_LARGEFILE, mode as c_int) as c_int
}

#[no_mangle]
pub unsafe extern "C" fn openat(dirfd: c_int, path: *const c_char, flags: c_int, mode: mode_t) -> c_int {
    if is_mutating_open(flags) {
        record("open_for_write", path, &format!(" flags={:#x}", flags));
    }
    libc::syscall(libc::SYS_openat, dirfd, path, flags, mode as c_int) as c_int
}

#[no_mangle]
pub unsafe extern "C" fn creat(path: *const c_char, mode: mode_t) -> c_int {
    record("creat", path, "");
    libc::syscall(libc::SYS_openat, libc::AT_FDCWD, path, libc::O_CREAT | libc::O_WRONLY | libc::O_TRUNC, mode as c_int) as c_int
}

#[no_mangle]
pub unsafe extern "C" fn unlink(path: *const c_char) -> c_int {
    record("unlink", path, "");
    libc::syscall(libc::SYS_unlinkat, libc::AT_FDCWD, path, 0) as c_int
}

#[no_mangle]
pub unsafe extern "C" fn unlinkat(dirfd: c_int, path: *const c_char, flags: c_int) -> c_int {
    record("unlink", path, "");
    libc::syscall(libc::SYS_unlinkat, dirfd, path, flags) as c_int
}

#[no_mangle]
pub unsafe extern "C" fn rmdir(path: *const c_char) -> c_int {
    record("rmdir", path, "");
    libc::syscall(libc::SYS_unlinkat, libc::AT_FDCWD, path, libc::AT_REMOVEDIR) as c_int
}

#[no_mangle]
pub unsafe extern "C" fn rename(from: *const c_char, to: *const c_char) -> c_int {
    record("rename", from, "");
    libc::syscall(libc::SYS_renameat2, libc::AT_FDCWD, from, libc::AT_FDCWD, to, 0) as c_int
}

#[no_mangle]
pub unsafe extern "C" fn renameat(fd1: c_int, from: *const c_char, fd2: c_int, to: *const c_char) -> c_int {
    record("rename", from, "");
    libc::syscall(libc::SYS_renameat2, fd1, from, fd2, to, 0) as c_int
}

#[no_mangle]
pub unsafe extern "C" fn mkdir(path: *const c_char, mode: mode_t) -> c_int {
    record("mkdir", path, "");
    if !exists(path) {
        note_created(path, true);
    }
    libc::syscall(libc::SYS_mkdirat, libc::AT_FDCWD, path, mode as c_int) as c_int
}

#[no_mangle]
pub unsafe extern "C" fn mkdirat(dirfd: c_int, path: *const c_char, mode: mode_t) -> c_int {
    record("mkdir", path, "");
    libc::syscall(libc::SYS_mkdirat, dirfd, path, mode as c_int) as c_int
}

#[no_mangle]
pub unsafe extern "C" fn symlink(target: *const c_char, linkpath: *const c_char) -> c_int {
    record("symlink", linkpath, "");
    if !exists(linkpath) {
        note_created(linkpath, false);
    }
    libc::syscall(libc::SYS_symlinkat, target, libc::AT_FDCWD, linkpath) as c_int
}

#[no_mangle]
pub unsafe extern "C" fn symlinkat(target: *const c_char, dirfd: c_int, linkpath: *const c_char) -> c_int {
    record("symlink", linkpath, "");
    libc::syscall(libc::SYS_symlinkat, target, dirfd, linkpath) as c_int
}

#[no_mangle]
pub unsafe extern "C" fn link(from: *const c_char, to: *const c_char) -> c_int {
    record("link", to, "");
    libc::syscall(libc::SYS_linkat, libc::AT_FDCWD, from, libc::AT_FDCWD, to, 0) as c_int
}

#[no_mangle]
pub unsafe extern "C" fn linkat(fd1: c_int, from: *const c_char, fd2: c_int, to: *const c_char, flags: c_int) -> c_int {
    record("link", to, "");
    libc::syscall(libc::SYS_linkat, fd1, from, fd2, to, flags) as c_int
}

#[no_mangle]
pub unsafe extern "C" fn truncate64(path: *const c_char, len: i64) -> c_int {
    record("truncate", path, "");
    libc::syscall(libc::SYS_truncate, path, len) as c_int
}

#[no_mangle]
pub unsafe extern "C" fn truncate(path: *const c_char, len: i64) -> c_int {
    record("truncate", path, "");
    libc::syscall(libc::SYS_truncate, path, len) as c_int
}

#[no_mangle]
pub unsafe extern "C" fn chmod(path: *const c_char, mode: mode_t) -> c_int {
    record("chmod", path, "");
    libc::syscall(libc::SYS_fchmodat, libc::AT_FDCWD, path, mode as c_int) as c_int
}

#[no_mangle]
pub unsafe extern "C" fn fchmodat(dirfd: c_int, path: *const c_char, mode: mode_t, _flags: c_int) -> c_int {
    record("chmod", path, "");
    libc::syscall(libc::SYS_fchmodat, dirfd, path, mode as c_int) as c_int
}

#[no_mangle]
pub unsafe extern "C" fn utimensat(dirfd: c_int, path: *const c_char, times: *const libc::timespec, flags: c_int) -> c_int {
    record("utimens", path, "");
    libc::syscall(libc::SYS_utimensat, dirfd, path, times, flags) as c_int
}

#[no_mangle]
pub unsafe extern "C" fn read(fd: c_int, buf: *mut libc::c_void, count: usize) -> isize {
    if fd > 2 {
        io_point("read");
        if let Some(r) = disk_fault(1, fd) {
            return r;
        }
    }
    libc::syscall(libc::SYS_read, fd, buf, count) as isize
}

#[no_mangle]
pub unsafe extern "C" fn pread64(fd: c_int, buf: *mut libc::c_void, count: usize, offset: i64) -> isize {
    io_point("pread");
    if let Some(r) = disk_fault(1, fd) {
        return r;
    }
    libc::syscall(libc::SYS_pread64, fd, buf, count, offset) as isize
}

#[no_mangle]
pub unsafe extern "C" fn pread(fd: c_int, buf: *mut libc::c_void, count: usize, offset: i64) -> isize {
    io_point("pread");
    libc::syscall(libc::SYS_pread64, fd, buf, count, offset) as isize
}

#[no_mangle]
pub unsafe extern "C" fn lseek64(fd: c_int, offset: i64, whence: c_int) -> i64 {
    io_point("seek");
    if let Some(r) = disk_fault(4, fd) {
        return if r == 0 { 0 } else { -1 };
    }
    libc::syscall(libc::SYS_lseek, fd, offset, whence) as i64
}

#[no_mangle]
pub unsafe extern "C" fn lseek(fd: c_int, offset: i64, whence: c_int) -> i64 {
    io_point("seek");
    libc::syscall(libc::SYS_lseek, fd, offset, whence) as i64
}

/// the working directory is process-wide state: changing it is a scheduling point (taken *after*
/// the change, so that other simulated threads run while it is in force)
#[no_mangle]
pub unsafe extern "C" fn chdir(path: *const c_char) -> c_int {
    let r = libc::syscall(libc::SYS_chdir, path) as c_int;
    io_point("chdir");
    r
}

#[no_mangle]
pub unsafe extern "C" fn fchdir(fd: c_int) -> c_int {
    let r = libc::syscall(libc::SYS_fchdir, fd) as c_int;
    io_point("chdir");
    r
}

#[no_mangle]
pub unsafe extern "C" fn statx(dirfd: c_int, path: *const c_char, flags: c_int, mask: libc::c_uint, buf: *mut libc::statx) -> c_int {
    io_point("stat");
    if let Some(r) = disk_fault(3, -1) {
        return r as c_int;
    }
    if FAULT_OP.load(Ordering::Relaxed) == 5 && !std::thread::panicking() && crate::rt::WORLD.get().is_some() {
        let c = FAULT_COUNT.fetch_add(1, Ordering::SeqCst) + 1;
        if c == FAULT_NTH.load(Ordering::Relaxed) {
            // regular files only (directories keep their times: the walk of a path stats them too)
            let mut sx: libc::statx = std::mem::zeroed();
            if libc::syscall(libc::SYS_statx, dirfd, path, flags, libc::STATX_TYPE, &mut sx as *mut libc::statx) == 0 && (sx.stx_mode as u32 & libc::S_IFMT) == libc::S_IFREG {
                let t = libc::timespec { tv_sec: 1_900_000_000 + c as i64, tv_nsec: 123_456_789 };
                let ts = [t, t];
                let empty = path.is_null() || *path == 0;
                let p = if empty { std::ptr::null() } else { path };
                libc::syscall(libc::SYS_utimensat, dirfd, p, ts.as_ptr(), 0);
                if let Some(w) = crate::rt::WORLD.get() {
                    w.disk_fault_fired(5, 0);
                }
            } else {
                // not a regular file: the next stat is the one
                FAULT_COUNT.fetch_sub(1, Ordering::SeqCst);
            }
        }
    }
    libc::syscall(libc::SYS_statx, dirfd, path, flags, mask, buf) as c_int
}

/// The monitor is trusted only if it sees std's own calls: create + delete a file in `dir`.
pub fn self_test(dir: &std::path::Path) -> bool {
    let before = SEEN_ANY.load(Ordering::SeqCst);
    let p = dir.join(".fsmon-selftest");
    let ok = std::fs::write(&p, b"x").is_ok() && std::fs::remove_file(&p).is_ok();
    let after = SEEN_ANY.load(Ordering::SeqCst);
    ok && after >= before + 2
}
