//! Builds the per-run document tree on the real filesystem and takes manifests of it.

use crate::scenario::*;
use crate::util::fnv;
use std::ffi::CString;
use std::fs;
use std::os::unix::ffi::OsStrExt;
use std::os::unix::fs::MetadataExt;
use std::path::{Path, PathBuf};

fn set_mtime(p: &Path, secs: i64) {
    let c = CString::new(p.as_os_str().as_bytes()).unwrap();
    let ts = [libc::timespec { tv_sec: secs, tv_nsec: 0 }, libc::timespec { tv_sec: secs, tv_nsec: 0 }];
    unsafe {
        libc::utimensat(libc::AT_FDCWD, c.as_ptr(), ts.as_ptr(), libc::AT_SYMLINK_NOFOLLOW);
    }
}

pub fn remove_all(p: &Path) {
    let _ = fs::remove_dir_all(p);
}

/// Creates `base` (emptied first) and everything in `spec` below it. Returns the absolute root.
pub fn build(base: &Path, spec: &TreeSpec) -> Result<PathBuf, String> {
    remove_all(base);
    fs::create_dir_all(base).map_err(|e| format!("mkdir {:?}: {}", base, e))?;
    let root = base.join(&spec.root);
    fs::create_dir_all(&root).map_err(|e| format!("mkdir {:?}: {}", root, e))?;
    let mut all: Vec<PathBuf> = vec![];
    for e in &spec.entries {
        let p = base.join(&e.path);
        if let Some(parent) = p.parent() {
            fs::create_dir_all(parent).map_err(|e| format!("mkdir {:?}: {}", parent, e))?;
        }
        match &e.kind {
            EntryKind::Dir => {
                fs::create_dir_all(&p).map_err(|e| format!("mkdir {:?}: {}", p, e))?;
            }
            EntryKind::File(Content::Sparse { len, seed }) => {
                use std::os::unix::fs::FileExt;
                let f = fs::File::create(&p).map_err(|e| format!("create {:?}: {}", p, e))?;
                f.set_len(*len).map_err(|e| format!("set_len {:?}: {}", p, e))?;
                for (at, bytes) in islands(*len, *seed) {
                    f.write_all_at(&bytes, at).map_err(|e| format!("write {:?}: {}", p, e))?;
                }
            }
            EntryKind::File(c) => {
                fs::write(&p, c.materialize()).map_err(|e| format!("write {:?}: {}", p, e))?;
            }
            EntryKind::Symlink(t) => {
                std::os::unix::fs::symlink(t, &p).map_err(|e| format!("symlink {:?}: {}", p, e))?;
            }
        }
        all.push(p);
    }
    if spec.meta_mode != 0 {
        use std::os::unix::fs::PermissionsExt;
        const FILE_MODES: [u32; 12] = [0o644, 0o444, 0o600, 0o755, 0o640, 0o400, 0o4755, 0o664, 0o666, 0o777, 0o2755, 0o1644];
        const DIR_MODES: [u32; 6] = [0o755, 0o700, 0o711, 0o1777, 0o2775, 0o750];
        let m = spec.meta_mode as usize;
        let links = base.join(".hl");
        fs::create_dir_all(&links).map_err(|e| format!("mkdir {:?}: {}", links, e))?;
        for (i, e) in spec.entries.iter().enumerate() {
            let p = base.join(&e.path);
            match &e.kind {
                EntryKind::File(_) => {
                    if (i + m) % 4 == 0 {
                        fs::hard_link(&p, links.join(format!("{}", i))).map_err(|e| format!("link {:?}: {}", p, e))?;
                    }
                    fs::set_permissions(&p, fs::Permissions::from_mode(FILE_MODES[(i + m) % FILE_MODES.len()])).map_err(|e| format!("chmod {:?}: {}", p, e))?;
                }
                EntryKind::Dir => {
                    fs::set_permissions(&p, fs::Permissions::from_mode(DIR_MODES[(i + m) % DIR_MODES.len()])).map_err(|e| format!("chmod {:?}: {}", p, e))?;
                }
                EntryKind::Symlink(_) => {}
            }
        }
    }
    // fixed mtimes, deepest first so that directory mtimes stay as set
    let mut every: Vec<PathBuf> = vec![];
    collect(base, &mut every);
    every.sort_by(|a, b| b.components().count().cmp(&a.components().count()).then(a.cmp(b)));
    // (before 1970, the epoch, beyond 2038 and 2100, and calendar corners: day 366 of leap years, leap
    // days, year ends, a second before midnight)
    const ODD: [i64; 14] = [-86_400, 0, 1, 2_147_483_648, 4_102_444_800, -2_208_988_800, 1_609_372_800, 1_735_646_400, 1_709_208_000, 951_825_600, 1_609_459_199, 1_672_531_199, 1_483_142_400, 4_107_542_400];
    for (i, p) in every.iter().enumerate() {
        // mode 7: the other way round (a file is newer than what sorts behind it, e.g. its .gz sibling)
        let t = if spec.mtime_mode == 7 {
            1_600_000_000 + 1000 - (i as i64 % 1000)
        } else if spec.mtime_mode != 0 && (i + spec.mtime_mode as usize) % 3 == 0 { ODD[(i / 3 + spec.mtime_mode as usize) % ODD.len()] } else { 1_600_000_000 + (i as i64 % 1000) };
        set_mtime(p, t);
    }
    set_mtime(base, 1_600_000_000);
    Ok(root)
}

fn collect(dir: &Path, out: &mut Vec<PathBuf>) {
    if let Ok(rd) = fs::read_dir(dir) {
        for e in rd.flatten() {
            let p = e.path();
            let is_dir = e.file_type().map(|t| t.is_dir()).unwrap_or(false);
            if is_dir {
                collect(&p, out);
            }
            out.push(p);
        }
    }
}

#[derive(Debug, Clone, PartialEq, Eq, PartialOrd, Ord)]
pub struct ManifestEntry {
    pub path: String,
    pub kind: char,
    pub size: u64,
    pub hash: u64,
    pub target: String,
    pub mode: u32,
    pub mtime: i64,
    pub mtime_ns: i64,
}

/// Paths, types, sizes, content hashes, link targets, permissions and mtimes of everything below
/// (and including) `base`.
pub fn manifest(base: &Path) -> Vec<ManifestEntry> {
    let mut every: Vec<PathBuf> = vec![base.to_path_buf()];
    collect(base, &mut every);
    let mut out = vec![];
    for p in every {
        let md = match fs::symlink_metadata(&p) {
            Ok(m) => m,
            Err(_) => continue,
        };
        let ft = md.file_type();
        let (kind, size, hash, target) = if ft.is_symlink() {
            ('l', 0, 0, fs::read_link(&p).map(|t| t.to_string_lossy().to_string()).unwrap_or_default())
        } else if ft.is_dir() {
            ('d', 0, 0, String::new())
        } else {
            let data = fs::read(&p).unwrap_or_default();
            ('f', md.len(), fnv(&data), String::new())
        };
        out.push(ManifestEntry {
            path: p.strip_prefix(base).unwrap_or(&p).to_string_lossy().to_string(),
            kind,
            size,
            hash,
            target,
            mode: md.mode(),
            mtime: md.mtime(),
            mtime_ns: md.mtime_nsec(),
        });
    }
    out.sort();
    out
}

pub fn manifest_diff(a: &[ManifestEntry], b: &[ManifestEntry]) -> Vec<String> {
    let mut out = vec![];
    let find = |v: &[ManifestEntry], p: &str| v.iter().find(|e| e.path == p).cloned();
    for e in a {
        match find(b, &e.path) {
            None => out.push(format!("deleted: {}", e.path)),
            Some(f) if f != *e => out.push(format!("altered: {} ({:?} -> {:?})", e.path, e, f)),
            _ => {}
        }
    }
    for e in b {
        if find(a, &e.path).is_none() {
            out.push(format!("created: {}", e.path));
        }
    }
    out
}
