//! Executable reference model, written from the README/FAQ/CONFIGURE wording and RFC 9110. It
//! shares no code with /repo. Where the documentation leaves a choice the expectation is a set.

use crate::scenario::*;
use std::collections::BTreeMap;

// ------------------------------------------------------------------------------------ file system

#[derive(Clone, Debug, PartialEq)]
pub enum Node {
    Dir,
    File(Vec<u8>),
    Link(String),
}

/// In-memory picture of the scratch base. Paths are component vectors relative to the base.
pub struct Fs {
    pub nodes: BTreeMap<Vec<String>, Node>,
    pub root: Vec<String>,
}

#[derive(Clone, Debug, PartialEq)]
pub enum Res {
    File(Vec<String>),
    Dir(Vec<String>),
    Missing,
    /// resolution left the scratch base (nothing is known about what lies there)
    Escaped,
}

fn comps(p: &str) -> Vec<String> {
    p.split('/').filter(|s| !s.is_empty()).map(|s| s.to_string()).collect()
}

impl Fs {
    pub fn from_spec(spec: &TreeSpec) -> Fs {
        let mut nodes = BTreeMap::new();
        let root = comps(&spec.root);
        let mut mkdirs = |nodes: &mut BTreeMap<Vec<String>, Node>, p: &[String]| {
            for i in 1..=p.len() {
                nodes.entry(p[..i].to_vec()).or_insert(Node::Dir);
            }
        };
        mkdirs(&mut nodes, &root);
        for e in &spec.entries {
            let c = comps(&e.path);
            if c.len() > 1 {
                mkdirs(&mut nodes, &c[..c.len() - 1]);
            }
            let n = match &e.kind {
                EntryKind::Dir => Node::Dir,
                EntryKind::File(ct) => Node::File(ct.materialize()),
                EntryKind::Symlink(t) => Node::Link(t.clone()),
            };
            nodes.insert(c, n);
        }
        Fs { nodes, root }
    }

    /// Kernel-style resolution of `rel` (may contain `.`, `..`, empty segments, symlinks)
    /// starting in directory `start`.
    pub fn resolve_from(&self, start: &[String], rel: &str) -> Res {
        let mut stack: Vec<String> = start.to_vec();
        let mut todo: Vec<String> = rel.split('/').rev().map(|s| s.to_string()).collect();
        let mut hops = 0;
        let mut last_is_dir_required = rel.ends_with('/');
        while let Some(c) = todo.pop() {
            if c.is_empty() || c == "." {
                continue;
            }
            // the current stack must be a directory to step further
            if !stack.is_empty() {
                match self.nodes.get(&stack) {
                    Some(Node::Dir) => {}
                    Some(Node::File(_)) => return Res::Missing, // ENOTDIR
                    _ => return Res::Missing,
                }
            }
            if c == ".." {
                if stack.is_empty() {
                    return Res::Escaped;
                }
                stack.pop();
                continue;
            }
            stack.push(c);
            match self.nodes.get(&stack) {
                None => return Res::Missing,
                Some(Node::Link(t)) => {
                    hops += 1;
                    if hops > 40 {
                        return Res::Missing;
                    }
                    let t = t.clone();
                    stack.pop();
                    if t.starts_with('/') {
                        return Res::Escaped;
                    }
                    if t.ends_with('/') && todo.is_empty() {
                        last_is_dir_required = true;
                    }
                    for part in t.split('/').rev() {
                        todo.push(part.to_string());
                    }
                }
                Some(_) => {}
            }
        }
        if stack.is_empty() {
            return Res::Dir(stack);
        }
        match self.nodes.get(&stack) {
            Some(Node::Dir) => Res::Dir(stack),
            Some(Node::File(_)) => {
                if last_is_dir_required {
                    Res::Missing
                } else {
                    Res::File(stack)
                }
            }
            _ => Res::Missing,
        }
    }

    pub fn file(&self, p: &[String]) -> Option<&Vec<u8>> {
        match self.nodes.get(p) {
            Some(Node::File(b)) => Some(b),
            _ => None,
        }
    }

    pub fn in_root(&self, p: &[String]) -> bool {
        p.len() >= self.root.len() && p[..self.root.len()] == self.root[..]
    }
}

// ------------------------------------------------------------------------------------------ lookup

#[derive(Clone, Debug, PartialEq)]
pub enum Answer {
    NotFound,
    /// 200 with exactly this file (resolved path relative to the scratch base)
    File(Vec<String>),
}

#[derive(Clone, Debug, PartialEq)]
pub struct Lookup {
    /// allowed answers; empty = the documentation does not determine the answer
    pub allowed: Vec<Answer>,
    /// the request path as looked up (for messages)
    pub note: &'static str,
}

fn lk(allowed: Vec<Answer>, note: &'static str) -> Lookup {
    Lookup { allowed, note }
}

/// Lexical depth walk: does the path, applied segment by segment, ever go above its start?
pub fn climbs(path: &str) -> bool {
    let mut depth: i64 = 0;
    for seg in path.split('/') {
        match seg {
            "" | "." => {}
            ".." => {
                depth -= 1;
                if depth < 0 {
                    return true;
                }
            }
            _ => depth += 1,
        }
    }
    false
}

pub fn percent_decode_once(s: &str) -> String {
    let b = s.as_bytes();
    let mut out = Vec::with_capacity(b.len());
    let mut i = 0;
    while i < b.len() {
        if b[i] == b'%' && i + 3 <= b.len() {
            let hex = |c: u8| (c as char).to_digit(16);
            if let (Some(h), Some(l)) = (hex(b[i + 1]), hex(b[i + 2])) {
                out.push((h * 16 + l) as u8);
                i += 3;
                continue;
            }
        }
        out.push(b[i]);
        i += 1;
    }
    String::from_utf8_lossy(&out).to_string()
}

/// The documented lookup for a GET: the file itself, else index.html inside the named
/// directory, else the file with .html appended; query and fragment ignored.
pub fn lookup(fs: &Fs, target: &str) -> Lookup {
    let end = target.find(|c| c == '?' || c == '#').unwrap_or(target.len());
    let path = &target[..end];
    if !path.starts_with('/') {
        return lk(vec![], "target without leading slash");
    }
    if path.contains('%') || path.contains('\\') {
        return lk(vec![], "encoded or unusual characters: not specified");
    }
    let segs: Vec<&str> = path[1..].split('/').collect();
    let has_dot = segs.iter().any(|s| *s == "." || *s == "..");
    let has_empty_inner = segs.len() > 1 && segs[..segs.len() - 1].iter().any(|s| s.is_empty());
    if has_dot || has_empty_inner {
        if climbs(path) {
            return lk(vec![], "climbs above the root (C01)");
        }
        // whether dot-segments / repeated slashes are normalised is not documented: 404, or
        // whatever the documented lookup gives for the lexically normalised path
        if fs.nodes.values().any(|n| matches!(n, Node::Link(_))) && segs.iter().any(|s| *s == "..") {
            return lk(vec![], "'..' in a tree with symbolic links: not specified");
        }
        let mut stack: Vec<&str> = vec![];
        for sgm in &segs {
            match *sgm {
                "" | "." => {}
                ".." => {
                    stack.pop();
                }
                x => stack.push(x),
            }
        }
        let mut norm = format!("/{}", stack.join("/"));
        if path.ends_with('/') && norm.len() > 1 {
            norm.push('/');
        }
        let mut inner = lookup(fs, &norm);
        if inner.allowed.is_empty() {
            return lk(vec![], "dot-segments or repeated slashes: not specified");
        }
        if !inner.allowed.contains(&Answer::NotFound) {
            inner.allowed.push(Answer::NotFound);
        }
        return lk(inner.allowed, "dot-segments or repeated slashes");
    }
    let root_builtin = ["/", "/style.css", "/script.js", "/favicon.svg"];
    let trailing = path.len() > 1 && path.ends_with('/');
    let p = if trailing { &path[..path.len() - 1] } else { path };
    let r = fs.resolve_from(&fs.root, p);
    let html = format!("{}.html", p);
    let html_res = if p == "/" { Res::Missing } else { fs.resolve_from(&fs.root, &html) };
    let res = match r {
        Res::Escaped => lk(vec![], "resolution leaves the scratch base"),
        Res::File(f) => {
            if trailing {
                lk(vec![Answer::NotFound, Answer::File(f)], "file name with a trailing slash")
            } else {
                lk(vec![Answer::File(f)], "file")
            }
        }
        Res::Dir(d) => match fs.resolve_from(&d, "index.html") {
            Res::File(f) => lk(vec![Answer::File(f)], "directory index"),
            Res::Escaped => lk(vec![], "resolution leaves the scratch base"),
            _ => {
                if let Res::File(_) = html_res {
                    lk(vec![], "directory without index next to <name>.html: not specified")
                } else {
                    lk(vec![Answer::NotFound], "directory without index page")
                }
            }
        },
        Res::Missing => match html_res {
            Res::File(f) => {
                if trailing {
                    lk(vec![Answer::NotFound, Answer::File(f)], ".html fallback with trailing slash")
                } else if p.ends_with(".html") {
                    lk(vec![Answer::NotFound, Answer::File(f)], ".html.html")
                } else {
                    lk(vec![Answer::File(f)], ".html fallback")
                }
            }
            Res::Escaped => lk(vec![], "resolution leaves the scratch base"),
            _ => lk(vec![Answer::NotFound], "nothing selected"),
        },
    };
    // built-in pages are a feature outside the documented lookup: they only carry an
    // expectation when the tree itself provides the file
    if root_builtin.contains(&path) && res.allowed == vec![Answer::NotFound] {
        return lk(vec![], "built-in page");
    }
    res
}

// --------------------------------------------------------------------------------------- media type

/// Accepted media types for extensions whose registration is unambiguous.
pub fn media_types(ext: &str) -> Option<&'static [&'static str]> {
    Some(match ext {
        "txt" => &["text/plain"],
        "css" => &["text/css"],
        "html" | "htm" => &["text/html"],
        "js" | "mjs" => &["text/javascript", "application/javascript"],
        "json" => &["application/json"],
        "png" => &["image/png"],
        "jpg" | "jpeg" => &["image/jpeg"],
        "gif" => &["image/gif"],
        "svg" => &["image/svg+xml"],
        "webp" => &["image/webp"],
        "pdf" => &["application/pdf"],
        "csv" => &["text/csv"],
        "zip" => &["application/zip"],
        "mp4" => &["video/mp4"],
        "woff2" => &["font/woff2"],
        "ico" => &["image/x-icon", "image/vnd.microsoft.icon"],
        "xml" => &["application/xml", "text/xml"],
        _ => return None,
    })
}

pub fn extension(name: &str) -> Option<&str> {
    let base = name.rsplit('/').next().unwrap_or(name);
    let i = base.rfind('.')?;
    if i == 0 || i + 1 == base.len() {
        return None;
    }
    Some(&base[i + 1..])
}

/// media type without parameters, lower-cased
pub fn essence(ct: &str) -> String {
    ct.split(';').next().unwrap_or("").trim().to_ascii_lowercase()
}

// -------------------------------------------------------------------------------------------- range

#[derive(Clone, Debug, PartialEq)]
pub enum RangeClass {
    /// every spec lies inside the file: 206 with exactly these inclusive ranges, in order
    InFile(Vec<(u64, u64)>),
    /// syntactically fine, but some spec reaches outside the file; for each spec the window
    /// requested ∩ file (None when empty)
    Outside(Vec<Option<(u64, u64)>>),
    /// not `bytes=` + specs
    Malformed,
}

/// Classify a Range header value against a file of length `len` (RFC 9110 section 14).
pub fn classify_range(value: &str, len: u64) -> RangeClass {
    let v = value.trim();
    let rest = match v.strip_prefix("bytes=") {
        Some(r) => r,
        None => return RangeClass::Malformed,
    };
    let mut exact = vec![];
    let mut windows = vec![];
    let mut all_inside = true;
    let specs: Vec<&str> = rest.split(',').collect();
    if specs.is_empty() {
        return RangeClass::Malformed;
    }
    for s in specs {
        let s = s.trim();
        let (a, b) = match s.split_once('-') {
            Some(x) => x,
            None => return RangeClass::Malformed,
        };
        let (a, b) = (a.trim(), b.trim());
        let num = |x: &str| -> Option<Option<u64>> {
            if x.is_empty() {
                return Some(None);
            }
            if !x.bytes().all(|c| c.is_ascii_digit()) {
                return None;
            }
            match x.parse::<u64>() {
                Ok(n) => Some(Some(n)),
                Err(_) => Some(Some(u64::MAX)), // beyond u64: certainly outside the file
            }
        };
        let (a, b) = match (num(a), num(b)) {
            (Some(a), Some(b)) => (a, b),
            _ => return RangeClass::Malformed,
        };
        let big = |x: &str| x.len() > 19 && x.parse::<u64>().is_err();
        match (a, b) {
            (None, None) => return RangeClass::Malformed,
            (Some(first), None) => {
                if len > 0 && first <= len - 1 && !big(s) {
                    exact.push((first, len - 1));
                    windows.push(Some((first, len - 1)));
                } else {
                    all_inside = false;
                    windows.push(None);
                }
            }
            (Some(first), Some(last)) => {
                if first > last {
                    return RangeClass::Malformed;
                }
                if len > 0 && last <= len - 1 {
                    exact.push((first, last));
                    windows.push(Some((first, last)));
                } else {
                    all_inside = false;
                    if len > 0 && first <= len - 1 {
                        windows.push(Some((first, len - 1)));
                    } else {
                        windows.push(None);
                    }
                }
            }
            (None, Some(n)) => {
                if n >= 1 && n <= len {
                    exact.push((len - n, len - 1));
                    windows.push(Some((len - n, len - 1)));
                } else {
                    all_inside = false;
                    if n >= 1 && len > 0 {
                        windows.push(Some((0, len - 1)));
                    } else {
                        windows.push(None);
                    }
                }
            }
        }
    }
    if all_inside {
        RangeClass::InFile(exact)
    } else {
        RangeClass::Outside(windows)
    }
}

// --------------------------------------------------------------------------------------------- cors

#[derive(Clone, Debug, Default)]
pub struct CorsCfg {
    pub allow_all: bool,
    pub origins: Vec<String>,
    pub methods: Vec<String>,
    pub headers: Vec<String>,
    pub expose: Vec<String>,
    pub credentials: bool,
    pub max_age: String,
}

pub fn cors_cfg(env: &[(String, String)]) -> CorsCfg {
    let get = |k: &str, d: &str| env.iter().find(|(n, _)| n == k).map(|(_, v)| v.clone()).unwrap_or_else(|| d.to_string());
    let list = |s: String| s.split(',').map(|x| x.trim().to_string()).filter(|x| !x.is_empty()).collect::<Vec<_>>();
    CorsCfg {
        allow_all: get("RWS_CONFIG_CORS_ALLOW_ALL", "true") == "true",
        origins: list(get("RWS_CONFIG_CORS_ALLOW_ORIGINS", "")),
        methods: list(get("RWS_CONFIG_CORS_ALLOW_METHODS", "")),
        headers: list(get("RWS_CONFIG_CORS_ALLOW_HEADERS", "")),
        expose: list(get("RWS_CONFIG_CORS_EXPOSE_HEADERS", "")),
        credentials: get("RWS_CONFIG_CORS_ALLOW_CREDENTIALS", "") == "true",
        max_age: get("RWS_CONFIG_CORS_MAX_AGE", "86400"),
    }
}

pub fn token_set(v: &str) -> Vec<String> {
    let mut t: Vec<String> = v.split(',').map(|x| x.trim().to_ascii_lowercase()).filter(|x| !x.is_empty()).collect();
    t.sort();
    t.dedup();
    t
}
