//! Strict HTTP/1.1 response parser (independent of the project's own lenient parser), a
//! multipart/byteranges splitter and a lenient view of request bytes for the oracles.

use crate::util::find;

#[derive(Clone, Debug, Default)]
pub struct Resp {
    pub version: String,
    pub code: u16,
    pub reason: String,
    pub headers: Vec<(String, String)>,
    pub body: Vec<u8>,
    pub head_len: usize,
}

impl Resp {
    pub fn get_all(&self, name: &str) -> Vec<&str> {
        self.headers.iter().filter(|(n, _)| n.eq_ignore_ascii_case(name)).map(|(_, v)| v.as_str()).collect()
    }
    pub fn get(&self, name: &str) -> Option<&str> {
        self.get_all(name).first().copied()
    }
    pub fn count(&self, name: &str) -> usize {
        self.get_all(name).len()
    }
}

#[derive(Clone, Debug, Default)]
pub struct Parsed {
    pub resp: Option<Resp>,
    /// deviations from the grammar, each "<class>: detail"
    pub deviations: Vec<String>,
    pub head_complete: bool,
}

/// code -> accepted reason phrases (IANA registry names, RFC 9110 and RFC 7231 spellings)
pub fn reason_phrases(code: u16) -> Option<&'static [&'static str]> {
    Some(match code {
        100 => &["Continue"],
        101 => &["Switching Protocols"],
        102 => &["Processing"],
        103 => &["Early Hints"],
        200 => &["OK"],
        201 => &["Created"],
        202 => &["Accepted"],
        203 => &["Non-Authoritative Information"],
        204 => &["No Content"],
        205 => &["Reset Content"],
        206 => &["Partial Content"],
        207 => &["Multi-Status"],
        208 => &["Already Reported"],
        226 => &["IM Used"],
        300 => &["Multiple Choices"],
        301 => &["Moved Permanently"],
        302 => &["Found"],
        303 => &["See Other"],
        304 => &["Not Modified"],
        305 => &["Use Proxy"],
        307 => &["Temporary Redirect"],
        308 => &["Permanent Redirect"],
        400 => &["Bad Request"],
        401 => &["Unauthorized"],
        402 => &["Payment Required"],
        403 => &["Forbidden"],
        404 => &["Not Found"],
        405 => &["Method Not Allowed"],
        406 => &["Not Acceptable"],
        407 => &["Proxy Authentication Required"],
        408 => &["Request Timeout"],
        409 => &["Conflict"],
        410 => &["Gone"],
        411 => &["Length Required"],
        412 => &["Precondition Failed"],
        413 => &["Content Too Large", "Payload Too Large", "Request Entity Too Large"],
        414 => &["URI Too Long", "Request-URI Too Long"],
        415 => &["Unsupported Media Type"],
        416 => &["Range Not Satisfiable", "Requested Range Not Satisfiable"],
        417 => &["Expectation Failed"],
        418 => &["I'm a teapot", "(Unused)"],
        421 => &["Misdirected Request"],
        422 => &["Unprocessable Content", "Unprocessable Entity"],
        423 => &["Locked"],
        424 => &["Failed Dependency"],
        425 => &["Too Early"],
        426 => &["Upgrade Required"],
        428 => &["Precondition Required"],
        429 => &["Too Many Requests"],
        431 => &["Request Header Fields Too Large"],
        451 => &["Unavailable For Legal Reasons"],
        500 => &["Internal Server Error"],
        501 => &["Not Implemented"],
        502 => &["Bad Gateway"],
        503 => &["Service Unavailable"],
        504 => &["Gateway Timeout"],
        505 => &["HTTP Version Not Supported"],
        506 => &["Variant Also Negotiates"],
        507 => &["Insufficient Storage"],
        508 => &["Loop Detected"],
        510 => &["Not Extended"],
        511 => &["Network Authentication Required"],
        _ => return None,
    })
}

fn is_tchar(c: u8) -> bool {
    c.is_ascii_alphanumeric() || b"!#$%&'*+-.^_`|~".contains(&c)
}

pub fn parse_response(b: &[u8]) -> Parsed {
    let mut p = Parsed::default();
    if b.is_empty() {
        p.deviations.push("empty: no bytes".into());
        return p;
    }
    let head_end = match find(b, b"\r\n\r\n") {
        Some(i) => i,
        None => {
            p.deviations.push(format!("head.incomplete: no blank line in {} bytes", b.len()));
            return p;
        }
    };
    p.head_complete = true;
    let head = &b[..head_end];
    let mut r = Resp { head_len: head_end + 4, body: b[head_end + 4..].to_vec(), ..Default::default() };
    // split on CRLF; a bare CR or LF inside a line is a deviation
    let mut lines: Vec<&[u8]> = vec![];
    let mut start = 0;
    let mut i = 0;
    while i + 1 < head.len() {
        if head[i] == b'\r' && head[i + 1] == b'\n' {
            lines.push(&head[start..i]);
            start = i + 2;
            i += 2;
        } else {
            i += 1;
        }
    }
    lines.push(&head[start..]);
    // status line
    let sl = lines[0];
    let sl_s = String::from_utf8_lossy(sl).to_string();
    let mut ok = false;
    if sl.len() >= 12 && &sl[..5] == b"HTTP/" && sl[5].is_ascii_digit() && sl[6] == b'.' && sl[7].is_ascii_digit() && sl[8] == b' ' {
        let code_b = &sl[9..12];
        if code_b.iter().all(|c| c.is_ascii_digit()) && (sl.len() == 12 || sl[12] == b' ') {
            r.version = sl_s[..8].to_string();
            r.code = std::str::from_utf8(code_b).unwrap().parse().unwrap_or(0);
            r.reason = if sl.len() > 13 { sl_s[13..].to_string() } else { String::new() };
            ok = true;
            if sl.len() == 12 {
                p.deviations.push("status_line.no_space_after_code: ".to_string() + &sl_s);
            }
        }
    }
    if !ok {
        p.deviations.push(format!("status_line.syntax: {:?}", sl_s));
    } else {
        match reason_phrases(r.code) {
            None => p.deviations.push(format!("status.unregistered: {}", r.code)),
            Some(ph) => {
                if !ph.contains(&r.reason.as_str()) {
                    p.deviations.push(format!("status.reason_mismatch: {} {:?}", r.code, r.reason));
                }
            }
        }
        if sl.iter().any(|&c| c == b'\r' || c == b'\n' || c == 0) {
            p.deviations.push("status_line.control_char: ".to_string() + &sl_s);
        }
    }
    for l in &lines[1..] {
        let ls = String::from_utf8_lossy(l).to_string();
        if l.iter().any(|&c| c == b'\r' || c == b'\n') {
            p.deviations.push(format!("header.line_break_inside: {:?}", ls));
        }
        if l.iter().any(|&c| c == 0) {
            p.deviations.push(format!("header.nul_inside: {:?}", ls));
        }
        match l.iter().position(|&c| c == b':') {
            None => {
                p.deviations.push(format!("header.no_colon: {:?}", ls));
            }
            Some(ci) => {
                let name = &l[..ci];
                if name.is_empty() || !name.iter().all(|&c| is_tchar(c)) {
                    p.deviations.push(format!("header.name_syntax: {:?}", ls));
                }
                let value = String::from_utf8_lossy(&l[ci + 1..]).trim_matches(|c| c == ' ' || c == '\t').to_string();
                r.headers.push((String::from_utf8_lossy(name).to_string(), value));
            }
        }
    }
    p.resp = Some(r);
    p
}

#[derive(Clone, Debug)]
pub struct Part {
    pub headers: Vec<(String, String)>,
    pub body: Vec<u8>,
}

impl Part {
    pub fn get(&self, name: &str) -> Option<&str> {
        self.headers.iter().find(|(n, _)| n.eq_ignore_ascii_case(name)).map(|(_, v)| v.as_str())
    }
}

pub fn boundary_of(content_type: &str) -> Option<String> {
    let lower = content_type.to_ascii_lowercase();
    if !lower.starts_with("multipart/byteranges") {
        return None;
    }
    let i = lower.find("boundary=")?;
    let v = &content_type[i + 9..];
    let v = v.split(';').next().unwrap_or("").trim().trim_matches('"');
    if v.is_empty() {
        None
    } else {
        Some(v.to_string())
    }
}

/// Splits a multipart/byteranges body. Accepts the closing delimiter as `--b--` or (what rws
/// writes) a bare trailing `--b`; C03 and C05 do not legislate the delimiter form.
pub fn parse_multipart(body: &[u8], boundary: &str) -> Result<Vec<Part>, String> {
    let delim = format!("--{}", boundary).into_bytes();
    if !body.starts_with(&delim) {
        return Err("multipart.no_opening_delimiter".into());
    }
    let sep = [b"\r\n".as_ref(), &delim].concat();
    let mut parts = vec![];
    let mut pos = delim.len();
    loop {
        // after a delimiter: "--" (final), or CRLF + part
        let rest = &body[pos..];
        if rest.is_empty() || rest == b"--" || rest == b"--\r\n" || rest == b"\r\n" {
            break;
        }
        if !rest.starts_with(b"\r\n") {
            return Err("multipart.garbage_after_delimiter".into());
        }
        let part_start = pos + 2;
        let next = find(&body[part_start..], &sep).map(|i| part_start + i);
        let part_end = next.unwrap_or(body.len());
        let part = &body[part_start..part_end];
        let he = find(part, b"\r\n\r\n").ok_or_else(|| "multipart.part_without_blank_line".to_string())?;
        let mut headers = vec![];
        for l in part[..he].split(|&c| c == b'\n') {
            let l = if l.ends_with(b"\r") { &l[..l.len() - 1] } else { l };
            if l.is_empty() {
                continue;
            }
            let ci = l.iter().position(|&c| c == b':').ok_or_else(|| "multipart.part_header_without_colon".to_string())?;
            headers.push((String::from_utf8_lossy(&l[..ci]).trim().to_string(), String::from_utf8_lossy(&l[ci + 1..]).trim().to_string()));
        }
        parts.push(Part { headers, body: part[he + 4..].to_vec() });
        match next {
            None => return Err("multipart.no_closing_delimiter".into()),
            Some(n) => pos = n + sep.len(),
        }
    }
    if parts.is_empty() {
        return Err("multipart.no_parts".into());
    }
    Ok(parts)
}

/// `bytes a-b/L` (L may be `*`)
pub fn parse_content_range(v: &str) -> Option<(u64, u64, Option<u64>)> {
    let v = v.trim();
    let rest = v.strip_prefix("bytes ")?;
    let (range, size) = rest.split_once('/')?;
    let (a, b) = range.split_once('-')?;
    let a: u64 = a.trim().parse().ok()?;
    let b: u64 = b.trim().parse().ok()?;
    let size = if size.trim() == "*" { None } else { Some(size.trim().parse().ok()?) };
    Some((a, b, size))
}

// ------------------------------------------------------------------------------------------ request

#[derive(Clone, Debug, Default)]
pub struct ReqView {
    pub method: String,
    pub target: String,
    pub version: String,
    pub headers: Vec<(String, String)>,
    /// header values as sent (one leading blank removed, nothing else)
    pub raw_values: Vec<(String, String)>,
    pub body: Vec<u8>,
    /// request line had exactly three SP-separated fields and a line end
    pub line_ok: bool,
    pub head_utf8: bool,
    pub head_complete: bool,
}

impl ReqView {
    pub fn header(&self, name: &str) -> Option<&str> {
        self.headers.iter().find(|(n, _)| n.eq_ignore_ascii_case(name)).map(|(_, v)| v.as_str())
    }
    pub fn raw_header(&self, name: &str) -> Option<&str> {
        self.raw_values.iter().find(|(n, _)| n.eq_ignore_ascii_case(name)).map(|(_, v)| v.as_str())
    }
    pub fn path(&self) -> &str {
        let t = self.target.as_str();
        let end = t.find(|c| c == '?' || c == '#').unwrap_or(t.len());
        &t[..end]
    }
}

/// How a careful reader would take the request bytes apart (harness side, lenient on purpose).
pub fn view_request(b: &[u8]) -> ReqView {
    let mut v = ReqView::default();
    let (head, body, complete) = match find(b, b"\r\n\r\n") {
        Some(i) => (&b[..i], &b[i + 4..], true),
        None => (b, &b[b.len()..], false),
    };
    v.head_complete = complete;
    v.body = body.to_vec();
    v.head_utf8 = std::str::from_utf8(head).is_ok();
    let text = String::from_utf8_lossy(head).to_string();
    // lines end with LF, an optional CR before it belongs to the line end
    let mut lines = text.split('\n').map(|l| l.strip_suffix('\r').unwrap_or(l));
    let rl = lines.next().unwrap_or("");
    let f: Vec<&str> = rl.split(' ').collect();
    if f.len() == 3 && f.iter().all(|x| !x.is_empty()) {
        v.line_ok = true;
    }
    v.method = f.first().copied().unwrap_or("").to_string();
    v.target = f.get(1).copied().unwrap_or("").to_string();
    v.version = f.get(2).copied().unwrap_or("").to_string();
    for l in lines {
        if let Some((n, val)) = l.split_once(':') {
            v.headers.push((n.trim().to_string(), val.trim().to_string()));
            v.raw_values.push((n.trim().to_string(), val.strip_prefix(' ').unwrap_or(val).to_string()));
        }
    }
    v
}
