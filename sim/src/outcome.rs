//! What one run reports to the worker process, and the aggregate a worker reports to the supervisor.

use crate::scenario::Scenario;
use serde::{Deserialize, Serialize};
use std::collections::{BTreeMap, BTreeSet};

#[derive(Serialize, Deserialize, Clone, Debug, PartialEq)]
pub struct Verdict {
    pub property: String,
    /// stable identifier of what failed (oracle clause + site); known findings are keyed on it
    pub class: String,
    pub detail: String,
    pub conn: Option<usize>,
}

#[derive(Serialize, Deserialize, Clone, Debug, Default)]
pub struct Outcome {
    pub verdicts: Vec<Verdict>,
    /// at least one oracle of the checked property was actually evaluated in this run
    pub evaluated: bool,
    /// the run was cut short by something that belongs to another property
    pub inconclusive: Option<String>,
    pub harness_error: Option<String>,
    pub sig: u64,
    pub events: u64,
    pub steps: u64,
    pub clock: u64,
    pub reach: BTreeMap<String, u64>,
    pub fired: BTreeMap<String, u64>,
    pub kinds: BTreeMap<String, u64>,
    pub end: String,
    pub trace: Option<Vec<String>>,
    pub notes: Vec<String>,
}

#[derive(Serialize, Deserialize, Clone, Debug)]
pub struct ViolationRec {
    pub class: String,
    pub count: u64,
    pub first_index: u64,
    pub campaign: String,
    pub detail: String,
    pub conn: Option<usize>,
    pub scenario: Scenario,
    pub sig: u64,
}

#[derive(Serialize, Deserialize, Clone, Debug, Default)]
pub struct Agg {
    pub evaluations: u64,
    pub evaluated: u64,
    pub inconclusive: u64,
    pub inconclusive_reasons: BTreeMap<String, u64>,
    pub sigs: BTreeSet<u64>,
    pub steps: u64,
    pub clock: u64,
    pub events: u64,
    pub reach: BTreeMap<String, u64>,
    pub fired: BTreeMap<String, u64>,
    pub kinds: BTreeMap<String, u64>,
    pub schedulers: BTreeMap<String, u64>,
    pub campaigns: BTreeMap<String, u64>,
    pub ends: BTreeMap<String, u64>,
    pub violations: BTreeMap<String, ViolationRec>,
    pub harness_errors: Vec<String>,
    pub samples: Vec<serde_json::Value>,
    pub exhaustive_campaigns: Vec<String>,
    /// things worth a look that are not verdicts of this property (e.g. a panic seen in passing)
    #[serde(default)]
    pub notes: Vec<String>,
}

fn add_map(a: &mut BTreeMap<String, u64>, b: &BTreeMap<String, u64>) {
    for (k, v) in b {
        *a.entry(k.clone()).or_insert(0) += v;
    }
}

impl Agg {
    pub fn add(&mut self, sc: &Scenario, out: &Outcome) {
        self.evaluations += 1;
        if out.evaluated {
            self.evaluated += 1;
            self.sigs.insert(out.sig);
        }
        if let Some(r) = &out.inconclusive {
            self.inconclusive += 1;
            *self.inconclusive_reasons.entry(r.clone()).or_insert(0) += 1;
        }
        self.steps += out.steps;
        self.clock += out.clock;
        self.events += out.events;
        add_map(&mut self.reach, &out.reach);
        add_map(&mut self.fired, &out.fired);
        add_map(&mut self.kinds, &out.kinds);
        *self.schedulers.entry(format!("{:?}/d{}", sc.sched.kind, sc.sched.depth)).or_insert(0) += 1;
        *self.campaigns.entry(sc.campaign.clone()).or_insert(0) += 1;
        *self.ends.entry(out.end.clone()).or_insert(0) += 1;
        for n in &out.notes {
            if self.notes.len() < 12 {
                self.notes.push(format!("{}#{}: {}", sc.campaign, sc.index, n));
            }
        }
        if let Some(h) = &out.harness_error {
            if self.harness_errors.len() < 20 {
                self.harness_errors.push(format!("{}#{}: {}", sc.campaign, sc.index, h));
            }
        }
        for v in &out.verdicts {
            let e = self.violations.entry(v.class.clone()).or_insert_with(|| ViolationRec {
                class: v.class.clone(),
                count: 0,
                first_index: sc.index,
                campaign: sc.campaign.clone(),
                detail: v.detail.clone(),
                conn: v.conn,
                scenario: sc.clone(),
                sig: out.sig,
            });
            e.count += 1;
            if (sc.campaign.as_str(), sc.index) < (e.campaign.as_str(), e.first_index) {
                e.first_index = sc.index;
                e.campaign = sc.campaign.clone();
                e.detail = v.detail.clone();
                e.conn = v.conn;
                e.scenario = sc.clone();
                e.sig = out.sig;
            }
        }
    }

    pub fn merge(&mut self, o: Agg) {
        self.evaluations += o.evaluations;
        self.evaluated += o.evaluated;
        self.inconclusive += o.inconclusive;
        add_map(&mut self.inconclusive_reasons, &o.inconclusive_reasons);
        self.sigs.extend(o.sigs);
        self.steps += o.steps;
        self.clock += o.clock;
        self.events += o.events;
        add_map(&mut self.reach, &o.reach);
        add_map(&mut self.fired, &o.fired);
        add_map(&mut self.kinds, &o.kinds);
        add_map(&mut self.schedulers, &o.schedulers);
        add_map(&mut self.campaigns, &o.campaigns);
        add_map(&mut self.ends, &o.ends);
        for (k, v) in o.violations {
            match self.violations.get_mut(&k) {
                None => {
                    self.violations.insert(k, v);
                }
                Some(e) => {
                    e.count += v.count;
                    if (v.campaign.as_str(), v.first_index) < (e.campaign.as_str(), e.first_index) {
                        let c = e.count;
                        *e = v;
                        e.count = c;
                    }
                }
            }
        }
        for h in o.harness_errors {
            if self.harness_errors.len() < 20 {
                self.harness_errors.push(h);
            }
        }
        for n in o.notes {
            if self.notes.len() < 12 {
                self.notes.push(n);
            }
        }
        for s in o.samples {
            if self.samples.len() < 6 {
                self.samples.push(s);
            }
        }
        for c in o.exhaustive_campaigns {
            if !self.exhaustive_campaigns.contains(&c) {
                self.exhaustive_campaigns.push(c);
            }
        }
    }
}
