//! rws-sim: deterministic simulation with fault injection for rws. See /verif/DESIGN.md.

mod evidence;
mod fsmon;
mod gen;
mod model;
mod oracle;
mod outcome;
mod rt;
mod runner;
mod scenario;
mod shrink;
mod solo;
mod tree;
mod util;
mod wire;
mod world;

use gen::{Budget, Tier};
use outcome::*;
use scenario::Scenario;
use std::collections::BTreeMap;
use std::path::{Path, PathBuf};
use std::time::{Duration, Instant};

/// directory holding known_findings.json, evidence/ and replays/ (set by ./check)
pub fn verif_dir() -> String {
    std::env::var("VERIF_DIR").unwrap_or_else(|_| "/verif".to_string())
}

fn usage() -> ! {
    eprintln!("usage: rws-sim check <Cxx> [--tier quick|thorough] [--seed N] [--workers W] [--budget SECONDS]");
    eprintln!("       rws-sim replay <file> [--trace]");
    eprintln!("       rws-sim selftest [--runs N]");
    std::process::exit(2);
}

struct Args {
    cmd: String,
    pos: Vec<String>,
    opts: BTreeMap<String, String>,
}

fn parse_args() -> Args {
    let mut a = std::env::args().skip(1);
    let cmd = a.next().unwrap_or_else(|| usage());
    let mut pos = vec![];
    let mut opts = BTreeMap::new();
    let rest: Vec<String> = a.collect();
    let mut i = 0;
    while i < rest.len() {
        if let Some(k) = rest[i].strip_prefix("--") {
            if k == "trace" {
                opts.insert(k.to_string(), "1".to_string());
                i += 1;
            } else {
                let v = rest.get(i + 1).cloned().unwrap_or_else(|| usage());
                opts.insert(k.to_string(), v);
                i += 2;
            }
        } else {
            pos.push(rest[i].clone());
            i += 1;
        }
    }
    Args { cmd, pos, opts }
}

pub fn scratch_base() -> PathBuf {
    // $TMPDIR, else the memory file system when there is one (building thousands of small trees
    // from 16 processes costs mostly kernel time on a disk file system), else /tmp
    let t = std::env::var("TMPDIR").unwrap_or_else(|_| {
        let shm = Path::new("/dev/shm");
        let writable = shm.is_dir() && unsafe { libc::access(b"/dev/shm\0".as_ptr() as *const libc::c_char, libc::W_OK | libc::X_OK) } == 0;
        if writable { "/dev/shm".to_string() } else { "/tmp".to_string() }
    });
    // every run directory has the same path length whatever the base (padded name, zero-padded pid,
    // three-character leaf): some error pages of the server quote absolute paths, and response
    // lengths are part of the event-log hash that a replay has to reproduce
    let t = t.trim_end_matches('/').to_string();
    let pad = 24usize.saturating_sub(t.len());
    PathBuf::from(&t).join(format!("rws-sim-{}{:07}", "_".repeat(pad), std::process::id()))
}

pub struct CheckCfg {
    pub prop: String,
    pub tier: Tier,
    pub seed: u64,
    pub workers: usize,
    pub budget_s: u64,
}

/// Run all campaigns of a check on `workers` forked worker processes and merge what they found.
pub fn run_campaigns(cfg: &CheckCfg, scratch: &Path) -> Result<Agg, String> {
    let plan = gen::plan(&cfg.prop, cfg.tier, cfg.seed).ok_or_else(|| format!("unknown property {}", cfg.prop))?;
    let total_weight: u32 = plan.iter().map(|c| if let Budget::Time(w) = c.budget { w } else { 0 }).sum();
    // determinism spot check before any verdict is believed: a few scenarios of every campaign,
    // twice each, under two different scratch paths
    let mut nondet = 0u64;
    {
        let mut ca = runner::RunCtx::new(scratch.join("dta"));
        let mut cb = runner::RunCtx::new(scratch.join("dtb"));
        for c in &plan {
            let n = match c.budget {
                Budget::Count(n) => n,
                Budget::Time(_) => u64::MAX,
            };
            for k in 0..6u64 {
                let idx = (k * 37 + 5) % n.max(1);
                let sc = (c.gen)(idx);
                let a = runner::run_one(&mut ca, &sc);
                let b = runner::run_one(&mut cb, &sc);
                let va: Vec<&String> = a.verdicts.iter().map(|v| &v.class).collect();
                let vb: Vec<&String> = b.verdicts.iter().map(|v| &v.class).collect();
                if a.sig != b.sig || va != vb || a.end != b.end {
                    // On the unchanged tree this never happens (tools/determinism.sh, ./check selftest).
                    // With a changed tree it usually means the change itself behaves differently from run
                    // to run (real clock, random state): said loudly, but the verdicts below still count.
                    println!("WARNING: nondeterminism: {}#{} run twice gave event-log hashes {:016x} / {:016x}, endings {} / {}, verdicts {:?} / {:?}", c.name, idx, a.sig, b.sig, a.end, b.end, va, vb);
                    nondet += 1;
                }
            }
        }
        tree::remove_all(&scratch.join("dta"));
        tree::remove_all(&scratch.join("dtb"));
    }
    let mut pids = vec![];
    std::fs::create_dir_all(scratch).map_err(|e| e.to_string())?;
    for w in 0..cfg.workers {
        let pid = unsafe { libc::fork() };
        if pid < 0 {
            return Err("fork failed".into());
        }
        if pid == 0 {
            let mut agg = Agg::default();
            // VERIF_SIGDUMP=<dir>: one line per run (campaign, index, event-log hash, ending, verdict
            // classes) for comparing whole checks across worker counts (tools/determinism.sh)
            let mut sigdump = std::env::var("VERIF_SIGDUMP").ok().and_then(|d| std::fs::File::create(format!("{}/sig-{}-{:02}.txt", d, cfg.prop, w)).ok());
            let mut ctx = runner::RunCtx::new(scratch.join(format!("w{:02}", w)));
            ctx.manifest = cfg.prop == "C13";
            for c in &plan {
                let deadline = match c.budget {
                    Budget::Count(_) => None,
                    Budget::Time(wt) => Some(Instant::now() + Duration::from_millis(cfg.budget_s * 1000 * wt as u64 / total_weight.max(1) as u64)),
                };
                let mut idx = w as u64;
                let mut kept = 0;
                loop {
                    match c.budget {
                        Budget::Count(n) => {
                            if idx >= n {
                                break;
                            }
                        }
                        Budget::Time(_) => {
                            if Instant::now() >= deadline.unwrap() {
                                break;
                            }
                        }
                    }
                    let sc = (c.gen)(idx);
                    let out = runner::run_one(&mut ctx, &sc);
                    if let Some(f) = sigdump.as_mut() {
                        use std::io::Write;
                        let _ = writeln!(f, "{} {} {:016x} {} {:?}", c.name, idx, out.sig, out.end, out.verdicts.iter().map(|v| v.class.as_str()).collect::<Vec<_>>());
                    }
                    if kept < 1 && w < 6 && out.evaluated && out.events > 8 {
                        agg.samples.push(evidence::sample(&sc, &out));
                        kept += 1;
                    }
                    agg.add(&sc, &out);
                    idx += cfg.workers as u64;
                }
                if c.exhaustive && !agg.exhaustive_campaigns.contains(&c.name.to_string()) {
                    agg.exhaustive_campaigns.push(c.name.to_string());
                }
            }
            tree::remove_all(&ctx.base);
            let path = scratch.join(format!("agg-{}.json", w));
            let ok = serde_json::to_vec(&agg).ok().and_then(|j| std::fs::write(&path, j).ok()).is_some();
            unsafe { libc::_exit(if ok { 0 } else { 5 }) };
        }
        pids.push(pid);
    }
    let mut agg = Agg::default();
    for (w, pid) in pids.iter().enumerate() {
        let mut status = 0;
        unsafe { libc::waitpid(*pid, &mut status, 0) };
        if !libc::WIFEXITED(status) || libc::WEXITSTATUS(status) != 0 {
            return Err(format!("worker process {} failed (status {})", w, status));
        }
        let path = scratch.join(format!("agg-{}.json", w));
        let data = std::fs::read(&path).map_err(|e| format!("{:?}: {}", path, e))?;
        let a: Agg = serde_json::from_slice(&data).map_err(|e| format!("{:?}: {}", path, e))?;
        agg.merge(a);
    }
    if nondet > 0 {
        agg.notes.push(format!("determinism spot check: {} scenario(s) differed between two runs", nondet));
    }
    Ok(agg)
}

fn tier_of(s: &str) -> Tier {
    match s {
        "quick" => Tier::Quick,
        "thorough" => Tier::Thorough,
        _ => usage(),
    }
}

fn cmd_check(args: &Args) -> i32 {
    let prop = args.pos.get(0).cloned().unwrap_or_else(|| usage());
    let tier = tier_of(
        &args.opts.get("tier").cloned().or_else(|| std::env::var("VERIF_TIER").ok().filter(|s| !s.is_empty())).unwrap_or_else(|| "quick".into()),
    );
    let seed: u64 = args
        .opts
        .get("seed")
        .cloned()
        .or_else(|| std::env::var("VERIF_SEED").ok().filter(|s| !s.is_empty()))
        .and_then(|s| s.parse().ok())
        .unwrap_or(1);
    let workers: usize = args.opts.get("workers").and_then(|s| s.parse().ok()).or_else(|| std::env::var("VERIF_WORKERS").ok().and_then(|s| s.parse().ok())).unwrap_or(16);
    let budget_s: u64 = args.opts.get("budget").and_then(|s| s.parse().ok()).or_else(|| std::env::var("VERIF_BUDGET_S").ok().and_then(|s| s.parse().ok())).unwrap_or(300);
    let cfg = CheckCfg { prop: prop.clone(), tier, seed, workers, budget_s };
    let started = Instant::now();
    println!("rws-sim check {} tier={:?} VERIF_SEED={} workers={}", prop, tier, seed, workers);
    let scratch = scratch_base();
    let result = run_campaigns(&cfg, &scratch);
    let agg = match result {
        Ok(a) => a,
        Err(e) => {
            tree::remove_all(&scratch);
            eprintln!("HARNESS-ERROR: {}", e);
            return 2;
        }
    };
    let code = evidence::conclude(&cfg, agg, &scratch, started);
    tree::remove_all(&scratch);
    code
}

fn cmd_replay(args: &Args) -> i32 {
    let file = args.pos.get(0).cloned().unwrap_or_else(|| usage());
    let data = match std::fs::read(&file) {
        Ok(d) => d,
        Err(e) => {
            eprintln!("HARNESS-ERROR: cannot read {}: {}", file, e);
            return 2;
        }
    };
    let rf: evidence::ReplayFile = match serde_json::from_slice(&data) {
        Ok(r) => r,
        Err(e) => {
            eprintln!("HARNESS-ERROR: cannot parse {}: {}", file, e);
            return 2;
        }
    };
    let scratch = scratch_base();
    let mut ctx = runner::RunCtx::new(scratch.join("rpl"));
    ctx.trace = args.opts.contains_key("trace");
    ctx.manifest = rf.scenario.property == "C13";
    println!("replaying {} (property {}, class {}, VERIF_SEED {})", file, rf.property, rf.class, rf.seed);
    let out = runner::run_one(&mut ctx, &rf.scenario);
    tree::remove_all(&scratch);
    if let Some(t) = &out.trace {
        for l in t {
            println!("{}", l);
        }
    }
    if let Some(h) = &out.harness_error {
        eprintln!("HARNESS-ERROR: {}", h);
        return 2;
    }
    let same = out.verdicts.iter().find(|v| v.class == rf.class);
    match same {
        Some(v) => {
            println!("reproduced: {} -- {}", v.class, v.detail);
            if out.sig != rf.sig {
                eprintln!("HARNESS-ERROR: violation reproduced but the event-log hash differs ({:016x} vs {:016x}): nondeterminism", out.sig, rf.sig);
                return 2;
            }
            println!("event-log hash {:016x} identical to the recorded run", out.sig);
            println!("VIOLATION property={} replay={}", rf.property, file);
            1
        }
        None => {
            println!("not reproduced on this tree: the recorded violation class {} did not occur (end: {}, other verdicts: {:?})", rf.class, out.end, out.verdicts.iter().map(|v| &v.class).collect::<Vec<_>>());
            0
        }
    }
}

/// Determinism self-test: the same seeds twice, with different worker counts and scratch paths.
fn cmd_selftest(args: &Args) -> i32 {
    let runs: u64 = args.opts.get("runs").and_then(|s| s.parse().ok()).unwrap_or(400);
    let props: Vec<String> = match args.pos.get(0) {
        Some(p) => vec![p.clone()],
        None => evidence::CLAIMED.iter().map(|s| s.to_string()).collect(),
    };
    let mut bad = 0;
    for prop in props {
        let plan = match gen::plan(&prop, Tier::Quick, 1) {
            Some(p) => p,
            None => continue,
        };
        let mut mism = 0u64;
        let mut total = 0u64;
        let base_a = scratch_base().join("sta");
        let base_b = scratch_base().join("stb");
        let mut ca = runner::RunCtx::new(base_a.clone());
        let mut cb = runner::RunCtx::new(base_b.clone());
        for c in &plan {
            let n = match c.budget {
                Budget::Count(n) => n.min(runs),
                Budget::Time(_) => runs,
            };
            for i in 0..n {
                let idx = i * 7 + 3;
                let sc = (c.gen)(idx % match c.budget { Budget::Count(n) => n, _ => u64::MAX });
                let a = runner::run_one(&mut ca, &sc);
                let b = runner::run_one(&mut cb, &sc);
                total += 1;
                let va: Vec<&String> = a.verdicts.iter().map(|v| &v.class).collect();
                let vb: Vec<&String> = b.verdicts.iter().map(|v| &v.class).collect();
                if a.sig != b.sig || va != vb || a.end != b.end {
                    mism += 1;
                    if mism <= 3 {
                        eprintln!("NONDETERMINISM {} {}#{}: sig {:016x} vs {:016x}, end {} vs {}, verdicts {:?} vs {:?}", prop, c.name, sc.index, a.sig, b.sig, a.end, b.end, va, vb);
                    }
                }
            }
        }
        tree::remove_all(&scratch_base());
        println!("selftest {}: {} scenarios run twice (two scratch paths), {} mismatches", prop, total, mism);
        bad += mism;
    }
    if bad > 0 {
        2
    } else {
        0
    }
}

/// debugging aid: write scenario <campaign>#<index> of a property as a replay file
fn cmd_gen(args: &Args) -> i32 {
    let (prop, campaign, index) = match (args.pos.get(0), args.pos.get(1), args.pos.get(2).and_then(|s| s.parse::<u64>().ok())) {
        (Some(p), Some(c), Some(i)) => (p.clone(), c.clone(), i),
        _ => usage(),
    };
    let seed: u64 = args.opts.get("seed").and_then(|s| s.parse().ok()).unwrap_or(1);
    let tier = tier_of(&args.opts.get("tier").cloned().unwrap_or_else(|| "quick".into()));
    let plan = match gen::plan(&prop, tier, seed) {
        Some(p) => p,
        None => usage(),
    };
    for c in &plan {
        if c.name == campaign {
            let sc = (c.gen)(index);
            let rf = evidence::ReplayFile { property: prop.clone(), class: "debug".into(), detail: String::new(), seed, sig: 0, minimised_from: serde_json::json!(null), scenario: sc };
            println!("{}", serde_json::to_string_pretty(&rf).unwrap());
            return 0;
        }
    }
    eprintln!("no campaign {} in {}", campaign, prop);
    2
}

fn main() {
    let args = parse_args();
    let code = match args.cmd.as_str() {
        "check" => cmd_check(&args),
        "replay" => cmd_replay(&args),
        "selftest" => cmd_selftest(&args),
        "gen" => cmd_gen(&args),
        _ => usage(),
    };
    std::process::exit(code);
}

#[allow(dead_code)]
fn _unused(_: &Scenario) {}
