fn main(){ println!("hi"); }
