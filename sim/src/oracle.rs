//! Oracles: turn the report of one run into verdicts of the property under check.

use crate::outcome::*;
use crate::rt::{End, Report};
use crate::scenario::*;
use crate::tree::ManifestEntry;

pub fn v(prop: &str, class: impl Into<String>, detail: impl Into<String>, conn: Option<usize>) -> Verdict {
    Verdict { property: prop.to_string(), class: class.into(), detail: detail.into(), conn }
}

pub fn end_name(e: &End) -> &'static str {
    match e {
        End::Completed => "completed",
        End::ServerExited => "server_exited",
        End::Deadlock(_) => "all_blocked",
        End::StepLimit => "step_bound",
    }
}

/// Shorten a repository path to something stable: `src/...`
pub fn short_file(f: &str) -> String {
    if let Some(i) = f.find("/src/") {
        if f.starts_with("/repo/") {
            return f[i + 1..].to_string();
        }
    }
    if let Some(i) = f.rfind("/registry/src/") {
        // dependency: crate-version/src/file
        let rest = &f[i + 14..];
        if let Some(j) = rest.find('/') {
            return rest[j + 1..].to_string();
        }
    }
    f.to_string()
}

fn base_outcome(sc: &Scenario, r: &Report) -> Outcome {
    let mut o = Outcome::default();
    o.sig = r.sig;
    o.events = r.events;
    o.steps = r.steps;
    o.clock = r.clock;
    o.end = end_name(&r.end).to_string();
    o.trace = r.trace.clone();
    for (k, n) in &r.reach {
        o.reach.insert(k.to_string(), *n);
    }
    for c in &r.conns {
        for f in &c.fired {
            // strip offsets so that kinds aggregate
            let k = f.split(|ch| ch == '@' || ch == ':').next().unwrap_or(f).to_string();
            *o.fired.entry(k).or_insert(0) += 1;
        }
    }
    let _ = sc;
    o
}

pub fn judge(sc: &Scenario, r: &Report) -> Outcome {
    let mut o = base_outcome(sc, r);
    match sc.property.as_str() {
        "C07" => c07(sc, r, &mut o),
        other => {
            o.harness_error = Some(format!("no oracle for property {}", other));
        }
    }
    o
}

/// The child died from a signal: stack exhaustion (SIGSEGV/SIGBUS), abort (double panic, alloc).
pub fn crash_outcome(sc: &Scenario, sig: i32, _partial: &[u8]) -> Outcome {
    let mut o = Outcome::default();
    o.end = format!("signal_{}", sig);
    let name = match sig {
        libc::SIGSEGV => "SIGSEGV",
        libc::SIGBUS => "SIGBUS",
        libc::SIGABRT => "SIGABRT",
        libc::SIGILL => "SIGILL",
        libc::SIGKILL => "SIGKILL",
        _ => "signal",
    };
    match sc.property.as_str() {
        "C04" | "C06" => {
            o.evaluated = true;
            o.verdicts.push(v(
                &sc.property,
                format!("process_crash.{}", name),
                format!("the server process was killed by {} ({}) during the run", name, sig),
                None,
            ));
        }
        _ => {
            o.inconclusive = Some(format!("process crash {}", name));
        }
    }
    o
}

pub fn manifest_verdicts(sc: &Scenario, before: &[ManifestEntry], after: &[ManifestEntry], out: &mut Outcome) {
    if sc.property != "C13" {
        return;
    }
    out.evaluated = true;
    let diff = crate::tree::manifest_diff(before, after);
    if !diff.is_empty() {
        let kind = diff[0].split(':').next().unwrap_or("changed").to_string();
        out.verdicts.push(v("C13", format!("manifest.{}", kind), diff.join("; "), None));
    }
}

pub fn abort_panic(sc: &Scenario, what: &str, out: &mut Outcome) {
    let _ = sc;
    if what.starts_with("/verif/") || what.contains("/shuttle") {
        out.harness_error = Some(format!("harness panic: {}", what));
    } else {
        out.inconclusive = Some(format!("execution aborted by panic outside a seam thread: {}", what));
        out.notes.push(what.to_string());
    }
}

// ------------------------------------------------------------------------------------------- C07

fn c07(sc: &Scenario, r: &Report, o: &mut Outcome) {
    let p = match &sc.pool {
        Some(p) => p,
        None => {
            o.harness_error = Some("C07 needs a pool scenario".into());
            return;
        }
    };
    o.evaluated = true;
    let n = p.tasks.len();
    match &r.end {
        End::Completed => {
            for i in 0..n {
                let c = r.exec_count.get(i).copied().unwrap_or(0);
                if c == 0 {
                    o.verdicts.push(v("C07", "task_lost", format!("task {} ({:?}) was never executed", i, p.tasks[i]), Some(i)));
                } else if c > 1 {
                    o.verdicts.push(v("C07", "task_duplicated", format!("task {} ({:?}) was executed {} times", i, p.tasks[i], c), Some(i)));
                }
            }
        }
        End::Deadlock(_) | End::StepLimit => {
            let lost: Vec<usize> = (0..n).filter(|&i| r.exec_count.get(i).copied().unwrap_or(0) == 0).collect();
            let unfinished: Vec<usize> = (0..n).filter(|&i| !r.done.get(i).copied().unwrap_or(false)).collect();
            let has_rdv = p.tasks.iter().any(|t| *t == TaskKind::Rendezvous);
            let has_gate = p.tasks.iter().any(|t| *t == TaskKind::Gated);
            let what = if r.end == End::StepLimit { "step bound exhausted" } else { "every task is blocked" };
            let class = if has_rdv {
                "liveness.rendezvous_of_n_never_filled"
            } else if has_gate {
                "liveness.slow_task_blocked_others"
            } else {
                "liveness.tasks_left_waiting"
            };
            o.verdicts.push(v(
                "C07",
                class,
                format!(
                    "{}: submitted {} of {} tasks, never started {:?}, unfinished {:?}, max simultaneously inside {} (pool size {})",
                    what, r.submitted, n, lost, unfinished, r.max_inside, p.size
                ),
                None,
            ));
        }
        End::ServerExited => {}
    }
    for (k, c) in [("instant", TaskKind::Instant), ("rendezvous", TaskKind::Rendezvous), ("gated", TaskKind::Gated)] {
        let cnt = p.tasks.iter().filter(|t| **t == c).count() as u64;
        if cnt > 0 {
            *o.kinds.entry(k.to_string()).or_insert(0) += cnt;
        }
    }
    let longs = p.tasks.iter().filter(|t| matches!(t, TaskKind::Long(_))).count() as u64;
    if longs > 0 {
        *o.kinds.entry("long".to_string()).or_insert(0) += longs;
    }
    if r.max_inside >= p.size && p.size > 1 {
        *o.reach.entry("n_tasks_inside_simultaneously".into()).or_insert(0) += 1;
    }
}
