//! Oracles: turn the report of one run into verdicts of the property under check.
//!
//! Each check only raises violations of its own property; a run cut short by something that
//! belongs to another property is counted as inconclusive.

use crate::model::{self, Answer, Fs, RangeClass};
use crate::outcome::*;
use crate::rt::{ConnState, End, PanicRec, Report};
use crate::scenario::*;
use crate::tree::ManifestEntry;
use crate::util::{contains, escape_trunc};
use crate::wire::{self, Parsed, ReqView, Resp};

pub fn v(prop: &str, class: impl Into<String>, detail: impl Into<String>, conn: Option<usize>) -> Verdict {
    Verdict { property: prop.to_string(), class: class.into(), detail: detail.into(), conn }
}

pub fn end_name(e: &End) -> &'static str {
    match e {
        End::Completed => "completed",
        End::ServerExited => "server_exited",
        End::Deadlock(_) => "all_blocked",
        End::StepLimit => "step_bound",
    }
}

/// Shorten a repository path to something stable: `src/...`
pub fn short_file(f: &str) -> String {
    if f.starts_with("/repo/") {
        return f[6..].to_string();
    }
    // the mirrored copy of /repo/src the shadow crate is built from (tools/mirror.sh)
    if let Some(i) = f.find("src-gen/") {
        return format!("src/{}", &f[i + 8..]);
    }
    if let Some(i) = f.rfind("/registry/src/") {
        let rest = &f[i + 14..];
        if let Some(j) = rest.find('/') {
            return rest[j + 1..].to_string();
        }
    }
    if let Some(i) = f.find("/library/") {
        return format!("std{}", &f[i + 8..]);
    }
    f.to_string()
}

/// stable class of a panic: file + message with numbers blanked (line numbers shift with edits)
pub fn panic_class(p: &PanicRec) -> String {
    let mut m = String::new();
    let mut last_hash = false;
    for ch in p.msg.chars().take(90) {
        if ch.is_ascii_digit() {
            if !last_hash {
                m.push('#');
            }
            last_hash = true;
        } else {
            last_hash = false;
            m.push(if ch.is_ascii_graphic() { ch } else { '_' });
        }
    }
    format!("panic.{}.{}", short_file(&p.file), m)
}

pub fn panic_text(p: &PanicRec) -> String {
    format!("panic at {}:{}: {}", short_file(&p.file), p.line, escape_trunc(p.msg.as_bytes(), 160))
}

fn base_outcome(r: &Report) -> Outcome {
    let mut o = Outcome::default();
    o.sig = r.sig;
    o.events = r.events;
    o.steps = r.steps;
    o.clock = r.clock;
    o.end = end_name(&r.end).to_string();
    o.trace = r.trace.clone();
    for (k, n) in &r.reach {
        o.reach.insert(k.to_string(), *n);
    }
    for c in &r.conns {
        for f in &c.fired {
            let k = f.split(|ch| ch == '@' || ch == ':').next().unwrap_or(f).to_string();
            *o.fired.entry(k).or_insert(0) += 1;
        }
    }
    for p in r.panics.iter().filter(|p| !p.msg.starts_with("deadlock!") && !p.msg.starts_with("exceeded max_steps") && !p.msg.starts_with("simulated application panic") && !p.msg.starts_with("scripted task panic")).take(2) {
        o.notes.push(format!("panic seen: {} (connection {:?})", panic_text(p), p.conn));
    }
    let caught = r.panics.iter().filter(|p| !p.msg.starts_with("deadlock!") && !p.msg.starts_with("exceeded max_steps")).count().saturating_sub(r.threads.iter().filter(|t| t.panic.is_some()).count());
    if caught > 0 {
        o.reach.insert("panic_caught_by_a_guard".into(), caught as u64);
    }
    o
}

/// Everything the per-property oracles share for one run.
pub struct Ctx<'a> {
    pub sc: &'a Scenario,
    pub r: &'a Report,
    pub fs: Fs,
    pub parsed: Vec<Parsed>,
    pub reqs: Vec<ReqView>,
}

impl<'a> Ctx<'a> {
    fn new(sc: &'a Scenario, r: &'a Report) -> Ctx<'a> {
        let fs = Fs::from_spec(&sc.tree);
        let parsed = r.conns.iter().map(|c| wire::parse_response(&c.outbound)).collect();
        let reqs = (0..r.conns.len())
            .map(|i| if i < sc.conns.len() { wire::view_request(&sc.conns[i].request.0) } else { wire::view_request(&r.conns[i].inbound) })
            .collect();
        Ctx { sc, r, fs, parsed, reqs }
    }
    fn resp(&self, i: usize) -> Option<&Resp> {
        self.parsed[i].resp.as_ref()
    }
    fn scripted(&self) -> std::ops::Range<usize> {
        0..self.r.n_scripted
    }
    fn bodiless_method(&self, i: usize) -> bool {
        // what the server can read off the request line, whether or not the rest is well-formed
        // permissive on purpose: whenever the server may have read HEAD or OPTIONS off the bytes,
        // the absence of a body is not held against it (the strict direction is C05's)
        let bytes = self.reqs_bytes(i);
        let first: Vec<u8> = bytes.iter().skip_while(|c| c.is_ascii_whitespace()).take_while(|c| !c.is_ascii_whitespace()).map(|c| c.to_ascii_uppercase()).collect();
        first == b"HEAD" || first == b"OPTIONS"
    }
    /// the response is one complete message: head, and a body as long as Content-Length says
    fn complete(&self, i: usize) -> Result<(), String> {
        let c = &self.r.conns[i];
        if c.outbound.is_empty() {
            return Err("no bytes were written".into());
        }
        let resp = match self.resp(i) {
            Some(r) => r,
            None => return Err(format!("response head incomplete after {} bytes", c.outbound.len())),
        };
        if !self.bodiless_method(i) {
            if let Some(cl) = resp.get("Content-Length") {
                if let Ok(n) = cl.trim().parse::<usize>() {
                    if resp.body.len() < n {
                        return Err(format!("body has {} of the {} bytes announced by Content-Length", resp.body.len(), n));
                    }
                }
            }
        }
        Ok(())
    }
    /// the request bytes are an ordinary well-formed HTTP/1.1 request (oracles that interpret
    /// the request must not be applied to what the shrinker may have cut to pieces)
    fn wellformed_req(&self, i: usize) -> bool {
        let q = &self.reqs[i];
        const METHODS: [&str; 9] = ["GET", "HEAD", "POST", "PUT", "DELETE", "CONNECT", "OPTIONS", "TRACE", "PATCH"];
        q.line_ok && q.head_complete && q.head_utf8 && q.version == "HTTP/1.1" && METHODS.contains(&q.method.as_str()) && q.target.starts_with('/')
    }
    /// the request line alone is valid: known method, a target, a supported version
    fn request_line_valid(&self, i: usize) -> bool {
        let q = &self.reqs[i];
        const METHODS: [&str; 9] = ["GET", "HEAD", "POST", "PUT", "DELETE", "CONNECT", "OPTIONS", "TRACE", "PATCH"];
        q.line_ok && METHODS.contains(&q.method.as_str()) && ["HTTP/1.1", "HTTP/1.0"].contains(&q.version.as_str()) && q.target.bytes().all(|c| c > 0x20 && c < 0x7f)
    }
    fn panic_for_conn(&self, i: usize) -> Option<&PanicRec> {
        self.r.panics.iter().find(|p| p.conn == Some(i))
    }
}

fn kind_of(cx: &Ctx, i: usize) -> String {
    let c = &cx.r.conns[i];
    if c.outbound.is_empty() {
        return "none".into();
    }
    match cx.resp(i) {
        None => "partial_head".into(),
        Some(r) => {
            let base = r.code.to_string();
            if r.code == 400 {
                if c.fired.iter().any(|f| f.starts_with("read_err")) {
                    return "400_read_error".into();
                }
                if c.fired.iter().any(|f| f == "handler_err") {
                    return "400_handler_error".into();
                }
                return "400".into();
            }
            if r.code == 206 {
                let multi = r.get("Content-Type").map(|t| t.to_ascii_lowercase().starts_with("multipart/byteranges")).unwrap_or(false);
                return if multi { "206_multipart".into() } else { "206_single".into() };
            }
            base
        }
    }
}

pub fn judge(sc: &Scenario, r: &Report) -> Outcome {
    let mut o = base_outcome(r);
    if sc.boot.is_some() {
        o.reach.insert("configuration_read_by_the_real_start_up_code".to_string(), 1);
        if let Ok(d) = crate::runner::BOOT_DIFF.lock() {
            for x in d.iter().take(3) {
                o.notes.push(format!("start-up: {}", x));
            }
        }
    }
    if sc.property == "C07" {
        c07(sc, r, &mut o);
        return o;
    }
    let cx = Ctx::new(sc, r);
    for i in 0..r.conns.len() {
        if r.conns[i].queued {
            *o.kinds.entry(kind_of(&cx, i)).or_insert(0) += 1;
        }
    }
    match sc.property.as_str() {
        "C01" => c01(&cx, &mut o),
        "C02" => c02(&cx, &mut o),
        "C03" => c03(&cx, &mut o),
        "C04" => c04(&cx, &mut o),
        "C05" => c05(&cx, &mut o),
        "C06" => c06(&cx, &mut o),
        "C08" => c08(&cx, &mut o),
        "C09" => c09(&cx, &mut o),
        "C10" => c10(&cx, &mut o),
        "C11" => c11(&cx, &mut o),
        "C13" => c13(&cx, &mut o),
        other => {
            o.harness_error = Some(format!("no oracle for property {}", other));
        }
    }
    o
}

/// The world made no step during 15 s of CPU time: a loop in the code under test that never reaches
/// a scheduling point (and so never ends - nothing it could wait for changes meanwhile).
pub fn busy_loop_outcome(sc: &Scenario) -> Outcome {
    let mut o = Outcome::default();
    o.end = "busy_loop".into();
    match sc.property.as_str() {
        "C04" | "C06" | "C07" => {
            o.evaluated = true;
            o.verdicts.push(v(&sc.property, "busy_loop", format!("a thread of the code under test ran for {} s of CPU time without reaching any scheduling point: a loop that never ends; the connection (task) it serves is never answered and its worker is lost", crate::runner::CHILD_CPU_CAP_S / 2), None));
        }
        _ => {
            o.inconclusive = Some("busy loop in the code under test (C04 / C06)".into());
        }
    }
    o
}

/// The child died from a signal: stack exhaustion (SIGSEGV/SIGBUS), abort (double panic, alloc).
pub fn crash_outcome(sc: &Scenario, sig: i32, _partial: &[u8]) -> Outcome {
    let mut o = Outcome::default();
    o.end = format!("signal_{}", sig);
    let name = match sig {
        libc::SIGSEGV => "SIGSEGV",
        libc::SIGBUS => "SIGBUS",
        libc::SIGABRT => "SIGABRT",
        libc::SIGILL => "SIGILL",
        libc::SIGKILL => "SIGKILL",
        _ => "signal",
    };
    // runs with files beyond 1 GiB have their address space capped by the harness (see
    // runner::address_space_limit): an abort there is an allocation the cap refused, not a verdict
    let capped = sc.tree.entries.iter().any(|e| matches!(&e.kind, EntryKind::File(Content::Sparse { len, .. }) if *len > 1 << 30));
    match sc.property.as_str() {
        // (SIGKILL there is the kernel's out-of-memory killer: several such children at once)
        "C04" | "C06" if !(capped && (sig == libc::SIGABRT || sig == libc::SIGKILL)) => {
            o.evaluated = true;
            o.verdicts.push(v(
                &sc.property,
                format!("process_crash.{}", name),
                format!("the server process was killed by {} ({}) during the run (stack exhaustion or abort)", name, sig),
                None,
            ));
        }
        _ => {
            o.inconclusive = Some(format!("process crash {} (C04)", name));
        }
    }
    o
}

pub fn manifest_verdicts(sc: &Scenario, before: &[ManifestEntry], after: &[ManifestEntry], out: &mut Outcome) {
    if sc.property != "C13" {
        return;
    }
    out.evaluated = true;
    let diff = crate::tree::manifest_diff(before, after);
    if !diff.is_empty() {
        let kind = diff[0].split(':').next().unwrap_or("changed").to_string();
        out.verdicts.push(v("C13", format!("manifest.{}", kind), diff.join("; "), None));
    }
}

pub fn abort_panic(_sc: &Scenario, what: &str, out: &mut Outcome) {
    if what.starts_with("/verif/") || what.contains("/shuttle") {
        out.harness_error = Some(format!("harness panic: {}", what));
    } else {
        out.inconclusive = Some("execution aborted by a panic outside a seam thread".into());
        out.notes.push(what.to_string());
    }
}

fn run_cut_short(cx: &Ctx, o: &mut Outcome) -> bool {
    if cx.r.end != End::Completed {
        o.inconclusive = Some(format!("run ended with {} (C04/C06)", end_name(&cx.r.end)));
        return true;
    }
    false
}

// ------------------------------------------------------------------------------------------- C04

/// Request bytes that no HTTP server can parse: the request line lacks a part, names no known
/// method or no HTTP version, or is not UTF-8. (Deliberately narrow: anything arguable is left
/// out so that the oracle never demands more than the statement.)
fn clearly_unparseable(req: &[u8], buf: usize) -> Option<&'static str> {
    let seen = &req[..req.len().min(buf)];
    // empty lines before the request line are a matter of leniency too (RFC 9112 2.2 lets a server skip them)
    let start = seen.iter().position(|&c| !(c == b'\r' || c == b'\n' || c == b' ' || c == b'\t')).unwrap_or(seen.len());
    let seen = &seen[start..];
    let line_end = seen.iter().position(|&c| c == b'\n').unwrap_or(seen.len());
    let line = &seen[..line_end];
    let line = if line.ends_with(b"\r") { &line[..line.len() - 1] } else { line };
    let s = match std::str::from_utf8(line) {
        // blanks and control characters around the line are a matter of leniency, not of parseability
        Ok(s) => s.trim_matches(|c: char| c.is_ascii_whitespace() || c.is_ascii_control()),
        Err(_) => return Some("request line is not UTF-8"),
    };
    let f: Vec<&str> = s.split(' ').filter(|x| !x.is_empty()).collect();
    if f.len() < 3 {
        return Some("request line has fewer than three parts");
    }
    const METHODS: [&str; 9] = ["GET", "HEAD", "POST", "PUT", "DELETE", "CONNECT", "OPTIONS", "TRACE", "PATCH"];
    if !METHODS.contains(&f[0].to_ascii_uppercase().as_str()) {
        return Some("unknown method");
    }
    if !f[f.len() - 1].to_ascii_uppercase().starts_with("HTTP/") {
        return Some("no HTTP version");
    }
    None
}

fn c04(cx: &Ctx, o: &mut Outcome) {
    o.evaluated = true;
    let r = cx.r;
    let mut cited: Vec<usize> = vec![]; // indices into r.panics already named by a verdict
    for i in cx.scripted() {
        let sc_conn = &cx.sc.conns[i];
        let c = &r.conns[i];
        let mut f = sc_conn.faults.clone();
        f.handler_err = false;
        // a fault of the disk seam hit this connection: what it owes is "no panic", like under a transport fault
        let disk_hit = c.fired.iter().any(|x| x.starts_with("disk_") || x == "dup_err");
        let entitled = sc_conn.strict_delivery() && f.is_clean() && !sc_conn.request.0.is_empty() && !disk_hit;
        let cause = |cited: &mut Vec<usize>| -> (String, String) {
            match r.panics.iter().position(|p| p.conn == Some(i)) {
                Some(k) => {
                    cited.push(k);
                    (format!(".{}", panic_class(&r.panics[k])), format!(" ({})", panic_text(&r.panics[k])))
                }
                None => (".dropped".to_string(), String::new()),
            }
        };
        if entitled {
            let req_txt = escape_trunc(&sc_conn.request.0, 120);
            match cx.complete(i) {
                Err(why) => {
                    if c.read_calls == 0 && (r.end != End::Completed || r.threads.iter().any(|t| !t.alive)) {
                        // never reached a worker: a consequence of what is reported below (C06's subject)
                        continue;
                    }
                    let (cl, txt) = cause(&mut cited);
                    let class = if c.outbound.is_empty() { format!("no_response{}", cl) } else { format!("incomplete_response{}", cl) };
                    o.verdicts.push(v("C04", class, format!("request {:?} ({}): {}{}", req_txt, sc_conn.class, why, txt), Some(i)));
                }
                Ok(()) => {
                    let resp = cx.resp(i).unwrap();
                    if !cx.bodiless_method(i) {
                        if let Some(n) = resp.get("Content-Length").and_then(|x| x.trim().parse::<usize>().ok()) {
                            if resp.body.len() > n {
                                o.verdicts.push(v("C04", "more_than_one_response", format!("request {:?}: {} bytes follow the response body announced as {} bytes", req_txt, resp.body.len() - n, n), Some(i)));
                            }
                        }
                    }
                    let is_err = resp.code >= 400 && resp.code < 600;
                    if sc_conn.faults.handler_err && c.fired.iter().any(|x| x == "handler_err") {
                        if !is_err {
                            o.verdicts.push(v("C04", "status_not_error.handler_error", format!("the application handler reported an error but the response status is {}", resp.code), Some(i)));
                        }
                    } else if let Some(why) = clearly_unparseable(&sc_conn.request.0, c.first_read_buf.max(1)) {
                        if !is_err {
                            o.verdicts.push(v("C04", "status_not_error.unparseable_request", format!("request {:?} ({}) was answered with status {}", req_txt, why, resp.code), Some(i)));
                        }
                    }
                    // a second response written after the first one
                    if c.writes.iter().filter(|w| w.ret > 0).count() > 1 && resp.get("Content-Length").is_none() && !resp.body.is_empty() {
                        if contains(&resp.body, b"HTTP/1.1 ") && !resp.get("Content-Type").map(|t| t.starts_with("multipart/")).unwrap_or(false) && contains(&resp.body, b"\r\nX-Content-Type-Options:") {
                            o.verdicts.push(v("C04", "more_than_one_response", format!("request {:?}: a second response head follows the first", req_txt), Some(i)));
                        }
                    }
                }
            }
        } else if !disk_hit && sc_conn.client == ClientMode::Normal && f.is_clean() && !sc_conn.request.0.is_empty() && r.panics.iter().all(|p| p.conn != Some(i)) {
            // the request arrived in several segments and nothing else went wrong: whatever
            // prefix the server acted on, it owes exactly one complete response
            if c.read_calls > 0 || r.end == End::Completed {
                if let Err(why) = cx.complete(i) {
                    o.verdicts.push(v("C04", if c.outbound.is_empty() { "no_response.segmented_request" } else { "incomplete_response.segmented_request" }, format!("request {:?} delivered in {} segments: {}", escape_trunc(&sc_conn.request.0, 100), sc_conn.delivery.len(), why), Some(i)));
                }
            }
        } else if sc_conn.faults.handler_panic.is_some() {
            // a scripted application panic is only there to set up a history
            for (k, p) in r.panics.iter().enumerate() {
                if p.conn == Some(i) && p.msg.starts_with("simulated application panic") {
                    cited.push(k);
                }
            }
        } else if let Some(k) = r.panics.iter().position(|p| p.conn == Some(i) && !p.msg.starts_with("simulated application panic")) {
            // relaxed regime: whatever the transport did, no panic
            if !cited.contains(&k) {
                cited.push(k);
                o.verdicts.push(v("C04", format!("panic_under_fault.{}", panic_class(&r.panics[k])), format!("connection {} (fired: {:?}): {}", i, c.fired, panic_text(&r.panics[k])), Some(i)));
            }
        }
    }
    for t in &r.threads {
        if let Some(p) = &t.panic {
            let k = r.panics.iter().position(|q| q.file == p.file && q.line == p.line && q.msg == p.msg);
            if k.map(|k| !cited.contains(&k)).unwrap_or(true) {
                o.verdicts.push(v("C04", format!("thread_died.{}", panic_class(p)), format!("thread '{}' ended: {}", t.name, panic_text(p)), p.conn));
            }
        }
    }
    match &r.end {
        End::Completed => {
            if let Some(f) = r.followup_id {
                let ok = cx.complete(f).is_ok() && cx.resp(f).map(|x| x.code == 200).unwrap_or(false);
                if !ok {
                    o.verdicts.push(v("C04", "followup_not_answered", format!("the valid request after the history got: {:?}", escape_trunc(&r.conns[f].outbound, 80)), Some(f)));
                }
            }
        }
        End::ServerExited => {
            let why = r.threads.iter().find(|t| t.name == "accept" && !t.alive).and_then(|t| t.panic.as_ref()).map(|p| format!(" ({})", panic_text(p))).unwrap_or_default();
            o.verdicts.push(v("C04", "server_exited", format!("the accept loop ended{}: the server no longer accepts connections", why), None));
        }
        End::Deadlock(_) | End::StepLimit => {
            if o.verdicts.is_empty() {
                o.verdicts.push(v("C04", "stuck", format!("the run ended with {} although no panic was seen; connections without response: {:?}", end_name(&r.end), cx.scripted().filter(|&i| r.conns[i].outbound.is_empty()).collect::<Vec<_>>()), None));
            } else if r.probe_started || r.followup_id.is_some() || true {
                // the cause is already reported; the unanswered follow-up is its consequence
            }
        }
    }
}

// ------------------------------------------------------------------------------------------- C05

fn normalise(bytes: &[u8]) -> Vec<u8> {
    // blank the value of the timestamp header
    let key = b"Date-Unix-Epoch-Nanos: ";
    let mut out = bytes.to_vec();
    if let Some(i) = crate::util::find(&out, key) {
        // (one X whatever the number of digits: the simulated epoch differs from run to run)
        let start = i + key.len();
        let mut j = start;
        while j < out.len() && out[j] != b'\r' {
            j += 1;
        }
        out.splice(start..j, [b'X']);
    }
    out
}

/// responses whose body is a form echo list their fields in HashMap order: sort the lines
fn normalise_echo(bytes: &[u8]) -> Vec<u8> {
    let n = normalise(bytes);
    if let Some(i) = crate::util::find(&n, b"\r\n\r\n") {
        let (head, body) = n.split_at(i + 4);
        let mut lines: Vec<&[u8]> = body.split(|&c| c == b'\n').collect();
        lines.sort();
        let mut out = head.to_vec();
        for l in lines {
            out.extend_from_slice(l);
            out.push(b'\n');
        }
        return out;
    }
    n
}

/// form echo pages list their fields in hash-map order: prefix comparisons do not apply
fn is_form_echo(target: &str) -> bool {
    target.starts_with("/form-") || target.starts_with("/file-upload")
}

fn wellformed_verdicts(cx: &Ctx, i: usize, o: &mut Outcome) {
    let c = &cx.r.conns[i];
    let p = &cx.parsed[i];
    let kind = kind_of(cx, i);
    let req_txt = escape_trunc(&cx.reqs_bytes(i), 100);
    for d in &p.deviations {
        let class = d.split(':').next().unwrap_or(d).to_string();
        if class == "empty" {
            continue; // completeness is C04's
        }
        if class == "head.incomplete" {
            // bytes were sent, the transport took them all, and they stop before the blank line: that
            // is not a response of the form the statement gives (under a transport fault or in a run
            // that was cut short it is C04's business)
            let sc_conn = &cx.sc.conns[i];
            let clean = i < cx.sc.conns.len() && sc_conn.faults.only_cuts() && sc_conn.client == ClientMode::Normal && matches!(cx.r.end, End::Completed) && !c.fired.iter().any(|x| x.starts_with("disk_"));
            if !(clean && !c.outbound.is_empty() && c.server_closed) {
                continue;
            }
        }
        if class == "header.nul_inside" {
            continue; // the statement forbids line breaks inside a header line, not NUL
        }
        o.verdicts.push(v("C05", format!("wellformed.{}", class), format!("request {:?} -> {} ({})", req_txt, d, kind), Some(i)));
    }
    let resp = match &p.resp {
        Some(r) => r,
        None => return,
    };
    // the workload's hostile values spell out header lines called X-Injected / Set-Cookie: injected
    for (n, val) in &resp.headers {
        if n.eq_ignore_ascii_case("X-Injected") || (n.eq_ignore_ascii_case("Set-Cookie") && val.contains("injected")) || n.eq_ignore_ascii_case("X-Tail") {
            o.verdicts.push(v("C05", "reflection.injected_header_line", format!("request {:?}: client text became the response header line {:?}: {:?}", req_txt, n, val), Some(i)));
        }
    }
    for name in ["Content-Length", "Content-Type", "Content-Range", "Transfer-Encoding"] {
        if resp.count(name) > 1 {
            o.verdicts.push(v("C05", format!("framing_header_twice.{}", name), format!("request {:?}: {} appears {} times", req_txt, name, resp.count(name)), Some(i)));
        }
    }
    // the method only counts when the server could read it: an unparsable request is
    // answered as such, whatever its first word was
    let method = if cx.request_line_valid(i) { cx.reqs[i].method.as_str() } else if cx.bodiless_method(i) { "?" } else { "" };
    let cl = resp.get("Content-Length").map(|x| x.trim().parse::<usize>());
    if method == "HEAD" || method == "OPTIONS" {
        if !resp.body.is_empty() {
            o.verdicts.push(v("C05", format!("body_on_{}", method.to_ascii_lowercase()), format!("request {:?}: {} body bytes on a {} response", req_txt, resp.body.len(), method), Some(i)));
        }
        if method == "OPTIONS" {
            if let Some(Ok(n)) = cl {
                if n != resp.body.len() {
                    o.verdicts.push(v("C05", "content_length.options_announces_absent_body", format!("request {:?}: Content-Length {} on an OPTIONS response with {} body bytes", req_txt, n, resp.body.len()), Some(i)));
                }
            }
        }
    } else if method != "?" {
        match cl {
            Some(Ok(n)) => {
                // only a fully delivered response can be measured (completeness itself is C04's)
                // (a clean transport that took every byte and was closed by the server: whatever
                // is missing was never written)
                let fully = c.writes.iter().all(|w| w.ret >= 0 && w.ret as usize == w.len) && c.server_closed;
                if n != resp.body.len() && (resp.body.len() > n || fully) {
                    o.verdicts.push(v("C05", "content_length.mismatch", format!("request {:?}: Content-Length {} but {} body bytes ({})", req_txt, n, resp.body.len(), kind), Some(i)));
                }
            }
            Some(Err(_)) => {
                o.verdicts.push(v("C05", "content_length.not_a_number", format!("request {:?}: Content-Length {:?}", req_txt, resp.get("Content-Length")), Some(i)));
            }
            None => {}
        }
    }
}

impl<'a> Ctx<'a> {
    fn reqs_bytes(&self, i: usize) -> Vec<u8> {
        if i < self.sc.conns.len() {
            self.sc.conns[i].request.0.clone()
        } else {
            self.r.conns[i].inbound.clone()
        }
    }
}

fn c05(cx: &Ctx, o: &mut Outcome) {
    let r = cx.r;
    if run_cut_short(cx, o) {
        return;
    }
    for i in cx.scripted() {
        let sc_conn = &cx.sc.conns[i];
        let c = &r.conns[i];
        // the handler-error answer is a response like any other
        {
            let mut f = sc_conn.faults.clone();
            f.handler_err = false;
            if sc_conn.faults.handler_err && f.is_clean() && sc_conn.strict_delivery() && !c.outbound.is_empty() {
                o.evaluated = true;
                wellformed_verdicts(cx, i, o);
                continue;
            }
        }
        // write faults: what arrived is a prefix of the response, all of it after a lone EINTR
        if sc_conn.strict_delivery() && !sc_conn.faults.only_cuts() {
            let mut f = sc_conn.faults.clone();
            let (wf, wz) = (f.write_fault.take(), f.write_zero_at.take());
            f.cuts = Cuts::None;
            if f.is_clean() && (wf.is_some() || wz.is_some()) {
                if let Some(t) = sc_conn.twin {
                    if t < r.conns.len() && !r.conns[t].outbound.is_empty() && cx.sc.conns[t].request == sc_conn.request && cx.sc.conns[t].faults.is_clean() {
                        o.evaluated = true;
                        let full = normalise(&r.conns[t].outbound);
                        let got = normalise(&c.outbound);
                        let fired_fault = c.fired.iter().any(|x| x.starts_with("write_err") || x.starts_with("write_zero"));
                        if !full.starts_with(&got) && !is_form_echo(&cx.reqs[i].target) {
                            o.verdicts.push(v("C05", "write_fault.not_a_prefix_of_the_response", format!("request {:?}: after {:?} the peer holds {} bytes that are not a prefix of the {}-byte response (write calls: {:?})", escape_trunc(&sc_conn.request.0, 80), c.fired, got.len(), full.len(), c.writes.iter().map(|w| (w.len, w.ret)).take(8).collect::<Vec<_>>()), Some(i)));
                        }
                        let only_eintr = wz.is_none() && wf.as_ref().map(|w| w.kind == IoKind::Interrupted && !w.sticky).unwrap_or(false);
                        if only_eintr && fired_fault && normalise_echo(&full) != normalise_echo(&got) && got.len() < full.len() {
                            o.verdicts.push(v("C05", "write_fault.response_cut_by_eintr", format!("request {:?}: one write call was interrupted (EINTR) at byte {} and the peer received only {} of {} bytes", escape_trunc(&sc_conn.request.0, 80), wf.as_ref().map(|w| w.at).unwrap_or(0), got.len(), full.len()), Some(i)));
                        }
                    }
                }
            }
            continue;
        }
        if !sc_conn.strict_delivery() {
            // a request sent in two pieces (a client waiting for "100 Continue"): whatever the server writes
            // on that connection - interim and final responses - arrives whole however the transport takes it
            if let Some(t) = sc_conn.twin {
                if sc_conn.client == ClientMode::Normal && sc_conn.faults.only_cuts() && t < r.conns.len() && cx.sc.conns[t].request == sc_conn.request && cx.sc.conns[t].delivery == sc_conn.delivery && cx.sc.conns[t].faults.is_clean() && !r.conns[t].outbound.is_empty() {
                    o.evaluated = true;
                    if normalise_echo(&r.conns[t].outbound) != normalise_echo(&c.outbound) {
                        o.verdicts.push(v("C05", "short_write.two_piece_request.stream_differs", format!("request {:?} sent in {} pieces: with the transport taking the answer in pieces ({:?}) the peer received {} bytes {:?}, otherwise {} bytes", escape_trunc(&sc_conn.request.0, 80), sc_conn.delivery.len(), sc_conn.faults.cuts, c.outbound.len(), escape_trunc(&c.outbound, 40), r.conns[t].outbound.len()), Some(i)));
                    }
                }
            }
            continue;
        }
        if c.outbound.is_empty() {
            o.inconclusive = Some("a connection got no response (C04)".into());
            continue;
        }
        o.evaluated = true;
        if sc_conn.faults.cuts == Cuts::None {
            wellformed_verdicts(cx, i, o);
        }
        if let Some(t) = sc_conn.twin {
            if t >= r.conns.len() || r.conns[t].outbound.is_empty() {
                continue;
            }
            let same_request = cx.sc.conns[t].request == sc_conn.request;
            if same_request {
                // delivered in full however the transport takes it
                let a = normalise_echo(&r.conns[t].outbound);
                let b = normalise_echo(&c.outbound);
                if a != b {
                    let pieces = c.writes.len();
                    let class = if c.outbound.len() < r.conns[t].outbound.len() { "short_write.response_truncated" } else { "short_write.response_differs" };
                    o.verdicts.push(v(
                        "C05",
                        class,
                        format!("request {:?}: the transport accepted the response in pieces ({:?}); the peer received {} of {} bytes ({} write calls)", escape_trunc(&sc_conn.request.0, 80), sc_conn.faults.cuts, c.outbound.len(), r.conns[t].outbound.len(), pieces),
                        Some(i),
                    ));
                }
            } else if let (Some(ra), Some(rb)) = (cx.resp(t), cx.resp(i)) {
                // client text echoed into the response can never add or split header lines
                let mut na: Vec<String> = ra.headers.iter().map(|(n, _)| n.to_ascii_lowercase()).collect();
                let mut nb: Vec<String> = rb.headers.iter().map(|(n, _)| n.to_ascii_lowercase()).collect();
                // (with an allow list the grants legitimately depend on the Origin value: the benign
                // and the hostile value of a pair need not be configured alike)
                if cx.sc.env.iter().any(|(k, v)| k == "RWS_CONFIG_CORS_ALLOW_ALL" && v != "true") {
                    na.retain(|n| !n.starts_with("access-control-"));
                    nb.retain(|n| !n.starts_with("access-control-"));
                }
                na.sort();
                nb.sort();
                if na != nb && ra.code == rb.code {
                    let extra: Vec<&String> = nb.iter().filter(|x| !na.contains(x)).collect();
                    let missing: Vec<&String> = na.iter().filter(|x| !nb.contains(x)).collect();
                    o.verdicts.push(v("C05", "reflection.header_lines_changed", format!("request {:?}: hostile header values changed the set of response header lines (added {:?}, missing {:?})", escape_trunc(&sc_conn.request.0, 160), extra, missing), Some(i)));
                }
            }
        }
    }
}

// ------------------------------------------------------------------------------------------- C06

fn c06(cx: &Ctx, o: &mut Outcome) {
    o.evaluated = true;
    let r = cx.r;
    worker_asleep("C06", r, o);
    let dead: Vec<&crate::rt::ThreadRec> = r.threads.iter().filter(|t| !t.alive && t.name != "accept").collect();
    let history: String = cx.sc.conns.iter().take(6).map(|c| c.class.clone()).collect::<Vec<_>>().join(",");
    match &r.end {
        End::ServerExited => {
            let mut cause = "unknown".to_string();
            let mut which = None;
            for (i, c) in r.conns.iter().enumerate() {
                for f in &c.fired {
                    if f.starts_with("accept_err") || f == "local_addr_err" || f == "peer_addr_err" || f == "dup_err" {
                        cause = f.split(':').next().unwrap_or(f).to_string();
                        which = Some(i);
                    }
                }
            }
            if let Some(p) = r.threads.iter().find(|t| t.name == "accept" && !t.alive).and_then(|t| t.panic.as_ref()) {
                cause = format!("accept_thread_{}", panic_class(p));
            }
            o.verdicts.push(v("C06", format!("server_exited.{}", cause), format!("the accept loop ended after connection {:?} ({}): no later connection is served; history [{}]", which, cause, history), which));
        }
        End::Completed => {
            // capacity probe and follow-up must have been answered correctly
            // (the file the probe request names: probe.txt unless the campaign says otherwise)
            let probe_target = match &cx.sc.probe {
                Probe::FollowUp { request } | Probe::Capacity { request } => wire::view_request(&request.0).target,
                Probe::None => "/probe.txt".to_string(),
            };
            let want = cx.fs.resolve_from(&cx.fs.root, probe_target.trim_start_matches('/'));
            let body: Option<&Vec<u8>> = match want {
                model::Res::File(p) => cx.fs.file(&p),
                _ => None,
            };
            let mut ids = r.probe_ids.clone();
            if let Some(f) = r.followup_id {
                ids.push(f);
            }
            for id in ids {
                let ok = cx.complete(id).is_ok() && cx.resp(id).map(|x| x.code == 200 && Some(&x.body) == body).unwrap_or(false);
                if !ok {
                    o.verdicts.push(v("C06", "probe_wrong_answer", format!("after history [{}] the valid probe request was answered with {:?}", history, escape_trunc(&r.conns[id].outbound, 100)), Some(id)));
                    break;
                }
            }
            // a worker may not be lost even if the probe happened to pass
            for t in &dead {
                let cls = t.panic.as_ref().map(panic_class).unwrap_or_else(|| "returned".into());
                o.verdicts.push(v("C06", format!("capacity_lost.{}", cls), format!("worker '{}' ended during history [{}]{}", t.name, history, t.panic.as_ref().map(|p| format!(": {}", panic_text(p))).unwrap_or_default()), t.panic.as_ref().and_then(|p| p.conn)));
            }
        }
        End::Deadlock(_) | End::StepLimit => {
            let picked = r.probe_ids.iter().filter(|&&i| r.conns[i].read_calls > 0).count();
            let where_ = if r.probe_started { format!("capacity probe: {} of {} simultaneous connections were picked up", picked, r.probe_ids.len()) } else { "a connection of the history was never served".to_string() };
            if dead.is_empty() {
                let holding: Vec<usize> = (0..r.conns.len()).filter(|&i| r.conns[i].in_process && !r.conns[i].server_closed && !r.conns[i].probe).collect();
                let fired: Vec<String> = holding.iter().flat_map(|&i| r.conns[i].fired.clone()).collect();
                let kind = fired.first().map(|f| f.split(|c| c == '@' || c == ':').next().unwrap_or("").to_string()).unwrap_or_else(|| "unknown".into());
                o.verdicts.push(v("C06", format!("capacity_lost.worker_stuck.{}", kind), format!("{} ({}); connections still holding a worker: {:?} (fired {:?}); history [{}]", where_, end_name(&r.end), holding, fired, history), holding.first().copied()));
            }
            let mut seen = vec![];
            for t in &dead {
                let cls = t.panic.as_ref().map(panic_class).unwrap_or_else(|| "returned".into());
                if seen.contains(&cls) {
                    continue;
                }
                seen.push(cls.clone());
                o.verdicts.push(v("C06", format!("capacity_lost.{}", cls), format!("{}; worker '{}' ended{}; history [{}]", where_, t.name, t.panic.as_ref().map(|p| format!(": {}", panic_text(p))).unwrap_or_default(), history), t.panic.as_ref().and_then(|p| p.conn)));
            }
        }
    }
}

// ------------------------------------------------------------------------------------------- C07

/// Liveness in simulated time: the pinned tree never sleeps. A worker that sleeps for half a minute
/// or more is a worker that serves nobody meanwhile - the tasks queued behind it wait although
/// nothing they need is busy (C07), and the server has one worker less for that long (C06).
const WORKER_SLEEP_LIMIT_MS: u64 = 30_000;

fn worker_asleep(prop: &str, r: &Report, o: &mut Outcome) {
    let ms = r.reach.get("longest_single_sleep_of_a_worker_ms").copied().unwrap_or(0);
    if ms >= WORKER_SLEEP_LIMIT_MS {
        o.verdicts.push(v(prop, "liveness.worker_asleep", format!("a worker thread slept {} s of simulated time in one call (limit {} s): nobody is served by it meanwhile", ms / 1000, WORKER_SLEEP_LIMIT_MS / 1000), None));
    }
}

fn c07(sc: &Scenario, r: &Report, o: &mut Outcome) {
    let p = match &sc.pool {
        Some(p) => p,
        None => {
            o.harness_error = Some("C07 needs a pool scenario".into());
            return;
        }
    };
    o.evaluated = true;
    worker_asleep("C07", r, o);
    let n = p.tasks.len();
    match &r.end {
        End::Completed => {
            for i in 0..n {
                let c = r.exec_count.get(i).copied().unwrap_or(0);
                if c == 0 {
                    o.verdicts.push(v("C07", "task_lost", format!("task {} ({:?}) was never executed", i, p.tasks[i]), Some(i)));
                } else if c > 1 {
                    o.verdicts.push(v("C07", "task_duplicated", format!("task {} ({:?}) was executed {} times", i, p.tasks[i], c), Some(i)));
                }
            }
        }
        End::Deadlock(_) | End::StepLimit => {
            let lost: Vec<usize> = (0..n).filter(|&i| r.exec_count.get(i).copied().unwrap_or(0) == 0).collect();
            let unfinished: Vec<usize> = (0..n).filter(|&i| !r.done.get(i).copied().unwrap_or(false)).collect();
            let has_rdv = p.tasks.iter().any(|t| *t == TaskKind::Rendezvous || matches!(t, TaskKind::Round(_)));
            let has_gate = p.tasks.iter().any(|t| *t == TaskKind::Gated);
            let what = if r.end == End::StepLimit { "step bound exhausted" } else { "every task is blocked" };
            let class = if has_rdv {
                "liveness.rendezvous_of_n_never_filled"
            } else if has_gate {
                "liveness.slow_task_blocked_others"
            } else {
                "liveness.tasks_left_waiting"
            };
            o.verdicts.push(v(
                "C07",
                class,
                format!("{}: submitted {} of {} tasks, never started {:?}, unfinished {:?}, max simultaneously inside {} (pool size {})", what, r.submitted, n, lost, unfinished, r.max_inside, p.size),
                None,
            ));
        }
        End::ServerExited => {}
    }
    for (k, c) in [("instant", TaskKind::Instant), ("rendezvous", TaskKind::Rendezvous), ("gated", TaskKind::Gated)] {
        let cnt = p.tasks.iter().filter(|t| **t == c).count() as u64;
        if cnt > 0 {
            *o.kinds.entry(k.to_string()).or_insert(0) += cnt;
        }
    }
    let longs = p.tasks.iter().filter(|t| matches!(t, TaskKind::Long(_))).count() as u64;
    if longs > 0 {
        *o.kinds.entry("long".to_string()).or_insert(0) += longs;
    }
    if r.max_inside >= p.size && p.size > 1 {
        *o.reach.entry("n_tasks_inside_simultaneously".into()).or_insert(0) += 1;
    }
}

// ------------------------------------------------------------------------------------------- C10

fn c10(cx: &Ctx, o: &mut Outcome) {
    let r = cx.r;
    for i in 0..r.conns.len() {
        let resp = match cx.resp(i) {
            Some(x) => x,
            None => continue,
        };
        o.evaluated = true;
        let kind = kind_of(cx, i);
        let req_txt = escape_trunc(&cx.reqs_bytes(i), 100);
        let mut need = |name: &str, check: &dyn Fn(&str) -> bool, want: &str| {
            let all = resp.get_all(name);
            if all.is_empty() {
                o.verdicts.push(v("C10", format!("missing.{}.on_{}", name, kind), format!("request {:?}: the {} response has no {} header", req_txt, kind, name), Some(i)));
            } else if all.len() > 1 {
                o.verdicts.push(v("C10", format!("twice.{}.on_{}", name, kind), format!("request {:?}: {} appears {} times", req_txt, name, all.len()), Some(i)));
            } else if !check(all[0]) {
                o.verdicts.push(v("C10", format!("wrong.{}.on_{}", name, kind), format!("request {:?}: {}: {:?} (expected {})", req_txt, name, all[0], want), Some(i)));
            }
        };
        need("X-Content-Type-Options", &|x| x.eq_ignore_ascii_case("nosniff"), "nosniff");
        need("X-Frame-Options", &|x| x.eq_ignore_ascii_case("SAMEORIGIN"), "SAMEORIGIN");
        need("Accept-Ranges", &|x| x.eq_ignore_ascii_case("bytes"), "bytes");
        need(
            "Cache-Control",
            &|x| {
                let t = model::token_set(x);
                t.contains(&"no-store".to_string()) && !t.iter().any(|d| d == "public" || d == "immutable" || d.starts_with("s-maxage") || (d.starts_with("max-age=") && d != "max-age=0"))
            },
            "a directive list containing no-store and nothing that permits caching",
        );
        need("Accept-CH", &|x| !x.trim().is_empty(), "a non-empty client-hint list");
        need("Vary", &|x| model::token_set(x).contains(&"origin".to_string()), "a list that names Origin");
    }
}

// ------------------------------------------------------------------------------------------- C13

fn c13(cx: &Ctx, o: &mut Outcome) {
    // the manifest comparison happens in the parent after the child has exited; the in-process
    // monitor reports through the notes of the report
    o.evaluated = true;
    for n in crate::fsmon::take_events() {
        let kind = n.split(' ').next().unwrap_or("mutation").to_string();
        o.verdicts.push(v("C13", format!("fs_mutation_call.{}", kind), format!("the server issued a filesystem mutation: {}", n), None));
    }
    let _ = cx;
}

// ------------------------------------------------------------------------------------------- C02

fn marker_scan(cx: &Ctx, body: &[u8], allow: &[Vec<String>]) -> Option<String> {
    for (p, n) in &cx.fs.nodes {
        if let model::Node::File(bytes) = n {
            if allow.contains(p) {
                continue;
            }
            // the first line of a generated file is its unique marker
            if bytes.len() >= 16 && bytes.starts_with(b"MARK-") || bytes.starts_with(b"S3CR3T-") || bytes.starts_with(b"LINKED-") {
                let end = bytes.iter().position(|&c| c == b'\n').unwrap_or(bytes.len().min(40));
                if end >= 12 && contains(body, &bytes[..end]) {
                    return Some(p.join("/"));
                }
            }
        }
    }
    None
}

/// A response that declares a content coding carries another stored representation of the file:
/// by convention the sibling with the coding's suffix. None: no coding declared; Some(None): a
/// coding is declared but no such sibling exists (nothing to compare with); Some(Some(bytes)).
fn coded_representation<'a>(cx: &'a Ctx, p: &[String], resp: &Resp) -> Option<Option<&'a Vec<u8>>> {
    let enc = resp.get("Content-Encoding")?.trim().to_ascii_lowercase();
    if enc.is_empty() || enc == "identity" {
        return None;
    }
    let suffix = match enc.as_str() {
        "gzip" | "x-gzip" => ".gz",
        "br" => ".br",
        "zstd" => ".zst",
        _ => return Some(None),
    };
    let mut q = p.to_vec();
    let last = q.pop()?;
    q.push(format!("{}{}", last, suffix));
    Some(cx.fs.file(&q))
}

fn root_404(cx: &Ctx) -> Vec<String> {
    let mut p = cx.fs.root.clone();
    p.push("404.html".into());
    p
}

/// Compare one GET response with the documented lookup. Returns false when the documentation
/// does not determine the answer.
fn check_lookup(cx: &Ctx, prop: &str, i: usize, o: &mut Outcome) -> bool {
    let rq = &cx.reqs[i];
    let lk = model::lookup(&cx.fs, &rq.target);
    if lk.allowed.is_empty() {
        return false;
    }
    let resp = match cx.resp(i) {
        Some(r) => r,
        None => return false,
    };
    let req_txt = format!("GET {}", rq.target);
    let files: Vec<&Vec<String>> = lk.allowed.iter().filter_map(|a| if let Answer::File(p) = a { Some(p) } else { None }).collect();
    let nf_ok = lk.allowed.contains(&Answer::NotFound);
    match resp.code {
        200 => {
            // a declared content coding: compare with the precompressed sibling, or not at all
            if let Some(f0) = files.first() {
                if let Some(enc) = resp.get("Content-Encoding").map(|e| e.trim().to_ascii_lowercase()).filter(|e| !e.is_empty() && e != "identity") {
                    // a declared content coding: the client will decode the body and take the result for the
                    // file. (1) the client must not have refused that coding; (2) when the body can be decoded
                    // here (gzip with stored blocks), what comes out must be the file; a body that is not in
                    // that coding at all is wrong; anything else cannot be judged
                    let note = lk.note.replace(' ', "_");
                    if let Some(ae) = rq.header("Accept-Encoding") {
                        let refused = ae.split(',').any(|c| {
                            let mut it = c.split(';');
                            let name = it.next().unwrap_or("").trim().to_ascii_lowercase();
                            let q0 = it.any(|p| { let p = p.trim().to_ascii_lowercase().replace(' ', ""); p == "q=0" || p == "q=0.0" || p == "q=0.00" || p == "q=0.000" });
                            q0 && (name == enc || (enc == "gzip" && name == "x-gzip"))
                        });
                        if refused {
                            o.verdicts.push(v(prop, format!("lookup.{}.coding_the_client_refused", note), format!("{} Accept-Encoding: {:?}: the answer is coded {:?}", req_txt, ae, enc), Some(i)));
                            return true;
                        }
                    }
                    if enc == "gzip" || enc == "x-gzip" {
                        match crate::util::gunzip_stored(&resp.body) {
                            crate::util::Gunzip::Ok(plain) => {
                                if Some(&plain) != cx.fs.file(f0) {
                                    o.verdicts.push(v(prop, format!("lookup.{}.coded_body_decodes_to_other_bytes", note), format!("{}: the gzip body decodes to {} bytes that are not the file {} ({} bytes)", req_txt, plain.len(), f0.join("/"), cx.fs.file(f0).map(|b| b.len()).unwrap_or(0)), Some(i)));
                                }
                                return true;
                            }
                            crate::util::Gunzip::NotGzip(why) => {
                                o.verdicts.push(v(prop, format!("lookup.{}.body_is_not_in_the_declared_coding", note), format!("{}: Content-Encoding gzip, but the {} bytes sent are not gzip ({})", req_txt, resp.body.len(), why), Some(i)));
                                return true;
                            }
                            crate::util::Gunzip::Unsupported => return false,
                        }
                    }
                    return false;
                }
            }
            let hit = files.iter().find(|p| cx.fs.file(p).map(|b| *b == resp.body).unwrap_or(false));
            match hit {
                None => {
                    if files.is_empty() {
                        o.verdicts.push(v(prop, format!("lookup.{}.served_200_instead_of_404", lk.note.replace(' ', "_")), format!("{}: nothing is selected by the documented lookup ({}) but the answer is 200 with {} bytes{}", req_txt, lk.note, resp.body.len(), marker_scan(cx, &resp.body, &[]).map(|m| format!(" from {}", m)).unwrap_or_default()), Some(i)));
                    } else {
                        let want = cx.fs.file(files[0]).map(|b| b.len()).unwrap_or(0);
                        let other = marker_scan(cx, &resp.body, &[files[0].clone()]);
                        o.verdicts.push(v(prop, format!("lookup.{}.wrong_bytes", lk.note.replace(' ', "_")), format!("{}: expected the {} bytes of {} ({}), got {} bytes{}", req_txt, want, files[0].join("/"), lk.note, resp.body.len(), other.map(|m| format!(" containing the marker of {}", m)).unwrap_or_default()), Some(i)));
                    }
                }
                Some(p) => {
                    let len = cx.fs.file(p).unwrap().len();
                    match resp.get("Content-Length").and_then(|x| x.trim().parse::<usize>().ok()) {
                        Some(n) if n == len => {}
                        other => o.verdicts.push(v(prop, "content_length.not_file_size", format!("{}: Content-Length {:?} for a file of {} bytes", req_txt, other, len), Some(i))),
                    }
                    let name = p.last().cloned().unwrap_or_default();
                    if let Some(ext) = model::extension(&name) {
                        if let Some(ok) = model::media_types(ext) {
                            let got = model::essence(resp.get("Content-Type").unwrap_or(""));
                            if !ok.contains(&got.as_str()) {
                                o.verdicts.push(v(prop, format!("media_type.{}", ext), format!("{}: file {} is labelled {:?}, registered type for .{} is {:?}", req_txt, name, got, ext, ok), Some(i)));
                            }
                        }
                    }
                }
            }
        }
        404 => {
            if !nf_ok {
                o.verdicts.push(v(prop, format!("lookup.{}.got_404", lk.note.replace(' ', "_")), format!("{}: the documented lookup selects {} ({}) but the answer is 404", req_txt, files[0].join("/"), lk.note), Some(i)));
            }
            if let Some(m) = marker_scan(cx, &resp.body, &[root_404(cx)]) {
                o.verdicts.push(v(prop, "not_found.body_contains_file_content", format!("{}: the 404 body contains the content of {}", req_txt, m), Some(i)));
            }
        }
        code => {
            o.verdicts.push(v(prop, format!("lookup.{}.got_{}", lk.note.replace(' ', "_"), code), format!("{}: expected {:?} ({}), got status {}", req_txt, lk.allowed.iter().map(|a| match a { Answer::NotFound => "404".to_string(), Answer::File(p) => format!("200 {}", p.join("/")) }).collect::<Vec<_>>(), lk.note, code), Some(i)));
        }
    }
    true
}

fn c02(cx: &Ctx, o: &mut Outcome) {
    if run_cut_short(cx, o) {
        return;
    }
    let mut by_ext: std::collections::BTreeMap<String, (String, usize)> = Default::default();
    for i in cx.scripted() {
        let sc_conn = &cx.sc.conns[i];
        if !sc_conn.strict_delivery() || !sc_conn.faults.only_cuts() || cx.reqs[i].method != "GET" || cx.reqs[i].header("Range").is_some() || !cx.wellformed_req(i) {
            continue;
        }
        if cx.complete(i).is_err() {
            // a clean transport and a target the documented lookup decides: silence is not an answer
            let lk = model::lookup(&cx.fs, &cx.reqs[i].target);
            if sc_conn.faults.is_clean() && !lk.allowed.is_empty() && cx.r.conns[i].read_calls > 0 {
                o.evaluated = true;
                let cause = cx.panic_for_conn(i).map(|p| (format!(".{}", panic_class(p)), format!(" ({})", panic_text(p)))).unwrap_or((".dropped".into(), String::new()));
                o.verdicts.push(v("C02", format!("no_response{}", cause.0), format!("GET {} ({}): no complete response{}", cx.reqs[i].target, lk.note, cause.1), Some(i)));
            } else {
                o.inconclusive = Some("a connection got no complete response (C04/C05)".into());
            }
            continue;
        }
        if check_lookup(cx, "C02", i, o) {
            o.evaluated = true;
        }
        // metamorphic: same extension, same type - whatever the directory, basename or content
        if let Some(resp) = cx.resp(i) {
            if resp.code == 200 {
                let lk = model::lookup(&cx.fs, &cx.reqs[i].target);
                if let Some(Answer::File(p)) = lk.allowed.iter().find(|a| matches!(a, Answer::File(_))) {
                    // (a name without extension is a class of its own: the label is a function of the
                    // extension, not of what the file holds)
                    if let Some(ext) = model::extension(p.last().map(|s| s.as_str()).unwrap_or("")).or(Some("<none>")) {
                        let got = model::essence(resp.get("Content-Type").unwrap_or(""));
                        match by_ext.get(ext) {
                            None => {
                                by_ext.insert(ext.to_string(), (got, i));
                            }
                            Some((t, j)) => {
                                if *t != got {
                                    o.verdicts.push(v("C02", "media_type.same_extension_different_type", format!("files with extension .{} were labelled {:?} (connection {}) and {:?} (connection {})", ext, t, j, got, i), Some(i)));
                                }
                            }
                        }
                    }
                }
            }
        }
    }
}

// ------------------------------------------------------------------------------------------- C03

/// Is (label, bytes) a correctly labelled slice of `file`? Err = (kind, explanation).
/// Ok carries the offsets of the bytes actually sent and, when the label's last offset is one
/// past the last byte sent (the exclusive-end convention), the explanation of that defect.
fn check_slice(resp_label: &str, body: &[u8], file: &[u8]) -> Result<(u64, u64, Option<String>), (&'static str, String)> {
    let (a, b, size) = wire::parse_content_range(resp_label).ok_or_else(|| ("unparsable_label", format!("unparsable Content-Range {:?}", resp_label)))?;
    let l = file.len() as u64;
    if size != Some(l) {
        return Err(("label_wrong_file_size", format!("Content-Range {:?} does not name the true file size {}", resp_label, l)));
    }
    let n = body.len() as u64;
    if b == a + n && a + n <= l && body == &file[a as usize..(a + n) as usize] {
        let why = format!("Content-Range {:?} names bytes {}-{} but the {} bytes sent are those at {}-{}: the last offset of the label is one past the last byte", resp_label, a, b, n, a, (a + n) as i128 - 1);
        if n == 0 {
            return Err(("label_end_one_past_last_byte", why));
        }
        return Ok((a, a + n - 1, Some(why)));
    }
    if a > b || b >= l {
        return Err(("label_outside_file", format!("Content-Range {:?} names offsets outside the file of {} bytes", resp_label, l)));
    }
    if n != b - a + 1 {
        return Err(("label_length_mismatch", format!("Content-Range {:?} names {} bytes but {} were sent", resp_label, b - a + 1, n)));
    }
    if body != &file[a as usize..=b as usize] {
        return Err(("bytes_from_other_offsets", format!("the bytes sent are not the bytes at offsets {}-{}", a, b)));
    }
    Ok((a, b, None))
}

fn c03(cx: &Ctx, o: &mut Outcome) {
    if run_cut_short(cx, o) {
        return;
    }
    for i in cx.scripted() {
        let sc_conn = &cx.sc.conns[i];
        let rq = &cx.reqs[i];
        let range = match rq.header("Range") {
            Some(r) => r.to_string(),
            None => {
                // a client that sent no Range header (in one piece or torn) never gets a partial answer
                if sc_conn.client == ClientMode::Normal && sc_conn.faults.is_clean() && rq.method == "GET" && cx.wellformed_req(i) && !contains(&sc_conn.request.0.to_ascii_lowercase(), b"range") {
                    if let Some(resp) = cx.resp(i) {
                        o.evaluated = true;
                        // (this server labels whole-file answers with a Content-Range too; the status decides)
                        if resp.code == 206 || resp.code == 416 {
                            o.verdicts.push(v("C03", "partial_answer_without_range_header", format!("GET {} without a Range header (delivered in {} segment(s)) was answered {} with Content-Range {:?}", rq.target, sc_conn.delivery.len().max(1), resp.code, resp.get("Content-Range")), Some(i)));
                        }
                    }
                }
                continue;
            }
        };
        if !sc_conn.strict() || rq.method != "GET" || !cx.wellformed_req(i) {
            continue;
        }
        let lk = model::lookup(&cx.fs, &rq.target);
        let no_file: Vec<u8> = vec![];
        let file: &Vec<u8> = match lk.allowed.as_slice() {
            [Answer::File(p)] => match cx.resp(i).and_then(|r| coded_representation(cx, p, r)) {
                // the ranges of a response with a declared content coding are ranges of that representation
                Some(Some(rep)) => rep,
                Some(None) => continue,
                None => cx.fs.file(p).unwrap_or(&no_file),
            },
            _ => continue,
        };
        // "for a single range a Content-Length equal to the bytes sent", whatever the class of the range
        if let Some(resp) = cx.resp(i) {
            let c = &cx.r.conns[i];
            let clean = c.writes.iter().all(|w| w.ret >= 0 && w.ret as usize == w.len) && c.server_closed;
            if resp.code == 206 && clean && wire::boundary_of(resp.get("Content-Type").unwrap_or("")).is_none() {
                if let Some(n) = resp.get("Content-Length").and_then(|x| x.trim().parse::<usize>().ok()) {
                    if n != resp.body.len() {
                        o.evaluated = true;
                        o.verdicts.push(v("C03", "content_length_differs_from_bytes_sent", format!("GET {} Range: {}: Content-Length {} but {} bytes were sent", rq.target, range, n, resp.body.len()), Some(i)));
                        continue;
                    }
                }
            }
        }
        if cx.complete(i).is_err() {
            // no answer at all is a C03 matter only in so far as "never no answer": attribute to the panic if any
            if let Some(p) = cx.panic_for_conn(i) {
                o.evaluated = true;
                o.verdicts.push(v("C03", format!("no_answer.{}", panic_class(p)), format!("Range: {} on a file of {} bytes: no response ({})", range, file.len(), panic_text(p)), Some(i)));
            } else {
                o.inconclusive = Some("a connection got no complete response (C04)".into());
            }
            continue;
        }
        o.evaluated = true;
        let resp = cx.resp(i).unwrap();
        let l = file.len() as u64;
        let cls = model::classify_range(&range, l);
        let ctx_txt = format!("GET {} Range: {} (file of {} bytes)", rq.target, range, l);
        let cname = match &cls {
            RangeClass::InFile(_) => "in_file",
            RangeClass::Outside(_) => "outside",
            RangeClass::Malformed => "malformed",
        };
        // gather what was sent as (label, bytes) parts
        let ctype = resp.get("Content-Type").unwrap_or("").to_string();
        let parts: Result<Vec<(String, Vec<u8>)>, String> = if let Some(b) = wire::boundary_of(&ctype) {
            wire::parse_multipart(&resp.body, &b).and_then(|ps| ps.into_iter().map(|p| p.get("Content-Range").map(|l| (l.to_string(), p.body.clone())).ok_or_else(|| "multipart.part_without_content_range".to_string())).collect())
        } else {
            Ok(vec![(resp.get("Content-Range").unwrap_or("").to_string(), resp.body.clone())])
        };
        match (&cls, resp.code) {
            (RangeClass::InFile(want), 206) => match parts {
                Err(e) => o.verdicts.push(v("C03", format!("in_file.{}", e), format!("{}: {}", ctx_txt, e), Some(i))),
                Ok(ps) => {
                    if ps.len() != want.len() {
                        o.verdicts.push(v("C03", "in_file.part_count", format!("{}: {} ranges requested, {} parts sent", ctx_txt, want.len(), ps.len()), Some(i)));
                    } else {
                        for (k, (label, body)) in ps.iter().enumerate() {
                            match check_slice(label, body, file) {
                                Err((kind, e)) => {
                                    let shape = range_shape(&range, k);
                                    o.verdicts.push(v("C03", format!("in_file.{}.{}", shape, kind), format!("{}: part {}: {}", ctx_txt, k, e), Some(i)));
                                    break;
                                }
                                Ok((a, b, excl)) => {
                                    let shape = range_shape(&range, k);
                                    if let Some(why) = excl {
                                        let class = format!("in_file.{}.label_end_one_past_last_byte", shape);
                                        if !o.verdicts.iter().any(|x| x.class == class && x.conn == Some(i)) {
                                            o.verdicts.push(v("C03", class, format!("{}: part {}: {}", ctx_txt, k, why), Some(i)));
                                        }
                                    }
                                    if (a, b) != want[k] {
                                        o.verdicts.push(v("C03", format!("in_file.{}.other_offsets", shape), format!("{}: part {} carries bytes {}-{}, requested {}-{}", ctx_txt, k, a, b, want[k].0, want[k].1), Some(i)));
                                        break;
                                    }
                                }
                            }
                        }
                        if ps.len() == 1 && wire::boundary_of(&ctype).is_none() {
                            let n = resp.get("Content-Length").and_then(|x| x.trim().parse::<u64>().ok());
                            if n != Some(want[0].1 - want[0].0 + 1) {
                                o.verdicts.push(v("C03", "in_file.content_length", format!("{}: Content-Length {:?}, bytes requested {}", ctx_txt, n, want[0].1 - want[0].0 + 1), Some(i)));
                            }
                        }
                    }
                }
            },
            (RangeClass::InFile(_), 200) if rq.header("If-Range").is_some() => {
                // RFC 9110 13.1.5: a validator that does not match turns the request into a plain GET
                if &resp.body != file {
                    o.verdicts.push(v("C03", "if_range.200_not_whole_file", format!("{} If-Range: {:?}: answered 200 with {} bytes that are not the whole file", ctx_txt, rq.header("If-Range"), resp.body.len()), Some(i)));
                }
            }
            (RangeClass::InFile(_), code) => {
                o.verdicts.push(v("C03", format!("in_file.status_{}", code), format!("{}: all ranges lie inside the file, expected 206, got {}", ctx_txt, code), Some(i)));
            }
            (_, 416) => {}
            (RangeClass::Malformed, 200) => {
                if &resp.body != file {
                    o.verdicts.push(v("C03", "malformed.200_not_whole_file", format!("{}: 200 with {} bytes that are not the file", ctx_txt, resp.body.len()), Some(i)));
                }
            }
            (RangeClass::Outside(_), 200) if l == 0 && resp.body.is_empty() => {}
            (_, 206) => {
                // clamped answer: every part must be a correctly labelled slice of the file
                if l == 0 && resp.body.is_empty() {
                    continue;
                }
                match parts {
                    Err(e) => o.verdicts.push(v("C03", format!("{}.{}", cname, e), format!("{}: {}", ctx_txt, e), Some(i))),
                    Ok(ps) => {
                        for (k, (label, body)) in ps.iter().enumerate() {
                            match check_slice(label, body, file) {
                                Err((kind, e)) => {
                                    let shape = range_shape(&range, k);
                                    o.verdicts.push(v("C03", format!("{}.{}.{}", cname, shape, kind), format!("{}: part {}: {}", ctx_txt, k, e), Some(i)));
                                    break;
                                }
                                Ok((a, b, excl)) => {
                                    if let Some(why) = excl {
                                        let class = format!("{}.{}.label_end_one_past_last_byte", cname, range_shape(&range, k));
                                        if !o.verdicts.iter().any(|x| x.class == class && x.conn == Some(i)) {
                                            o.verdicts.push(v("C03", class, format!("{}: part {}: {}", ctx_txt, k, why), Some(i)));
                                        }
                                    }
                                    if let RangeClass::Outside(w) = &cls {
                                        if ps.len() == w.len() {
                                            match w[k] {
                                                Some((wa, wb)) if a >= wa && b <= wb => {}
                                                _ => {
                                                    let shape = range_shape(&range, k);
                                                    o.verdicts.push(v("C03", format!("outside.{}.bytes_from_other_offsets", shape), format!("{}: part {} carries bytes {}-{}, which is not inside requested ∩ file {:?}", ctx_txt, k, a, b, w[k]), Some(i)));
                                                    break;
                                                }
                                            }
                                        }
                                    }
                                }
                            }
                        }
                    }
                }
            }
            (_, code) => {
                o.verdicts.push(v("C03", format!("{}.status_{}", cname, code), format!("{}: expected 416 or a clamped slice, got {}", ctx_txt, code), Some(i)));
            }
        }
    }
}

/// shape of the k-th spec of a Range value: first-last / first- / -suffix / other
fn range_shape(value: &str, k: usize) -> &'static str {
    let rest = value.trim().strip_prefix("bytes=").unwrap_or("");
    let spec = rest.split(',').nth(k).unwrap_or("").trim();
    match spec.split_once('-') {
        Some((a, b)) if !a.trim().is_empty() && !b.trim().is_empty() => "first_last",
        Some((a, b)) if !a.trim().is_empty() && b.trim().is_empty() => "open_ended",
        Some((a, b)) if a.trim().is_empty() && !b.trim().is_empty() => "suffix",
        _ => "other",
    }
}

// ------------------------------------------------------------------------------------------- C01

fn c01(cx: &Ctx, o: &mut Outcome) {
    let r = cx.r;
    // O1: universal tripwire, every byte written on every connection, any regime
    for i in 0..r.conns.len() {
        let out = &r.conns[i].outbound;
        if out.is_empty() {
            continue;
        }
        o.evaluated = true;
        if let Some(pos) = crate::util::find(out, b"S3CR3T-") {
            let end = (pos + 48).min(out.len());
            let target = cx.reqs[i].target.clone();
            let shape = target_shape(&target);
            o.verdicts.push(v("C01", format!("secret_disclosed.{}", shape), format!("request {:?} was answered with the content of a file outside the served directory: ...{}...", escape_trunc(&cx.reqs_bytes(i), 120), escape_trunc(&out[pos..end], 60)), Some(i)));
        }
        if contains(out, b"root:x:0:0:") {
            o.verdicts.push(v("C01", "system_file_disclosed", format!("request {:?} was answered with /etc/passwd", escape_trunc(&cx.reqs_bytes(i), 120)), Some(i)));
        }
    }
    // O2: a target that climbs above the served directory is answered with an error status
    for i in cx.scripted() {
        if !cx.sc.conns[i].strict() {
            continue;
        }
        let resp = match cx.resp(i) {
            Some(x) => x,
            None => continue,
        };
        let t = &cx.reqs[i].target;
        if !t.starts_with('/') || !cx.wellformed_req(i) {
            continue;
        }
        let end = t.find(|c| c == '?' || c == '#').unwrap_or(t.len());
        let path = &t[..end];
        // literal dot-segments only: whether %2e is a dot is the server's choice, and the
        // tripwire above covers servers that decode
        if model::climbs(path) {
            if resp.code < 400 {
                let served = marker_scan(cx, &resp.body, &[]);
                o.verdicts.push(v("C01", format!("climb_not_refused.{}", target_shape(t)), format!("target {:?} climbs above the served directory and was answered with status {}{}", t, resp.code, served.map(|m| format!(" and the content of {}", m)).unwrap_or_default()), Some(i)));
            }
        }
    }
}

/// coarse shape of a request target, used to key findings
fn target_shape(t: &str) -> &'static str {
    let lower = t.to_ascii_lowercase();
    let enc = lower.contains("%2e") || lower.contains("%2f") || lower.contains("%5c");
    if !t.starts_with('/') {
        return if t.contains("://") { "absolute_form" } else { "no_leading_slash" };
    }
    if enc {
        return "encoded_dots";
    }
    if t.contains("..") {
        return "dot_dot_segments";
    }
    "other"
}

// ------------------------------------------------------------------------------------------- C09

fn header_map(resp: &Resp) -> Vec<(String, String)> {
    let mut h: Vec<(String, String)> = resp.headers.iter().filter(|(n, _)| !n.eq_ignore_ascii_case("Date-Unix-Epoch-Nanos")).map(|(n, v)| (n.to_ascii_lowercase(), v.clone())).collect();
    h.sort();
    h
}

fn c09(cx: &Ctx, o: &mut Outcome) {
    if run_cut_short(cx, o) {
        return;
    }
    // connections come in groups: a GET and its HEAD / OPTIONS twins
    for i in cx.scripted() {
        let sc_conn = &cx.sc.conns[i];
        let t = match sc_conn.twin {
            Some(t) => t,
            None => continue,
        };
        if !sc_conn.strict() || !cx.sc.conns[t].strict() || !cx.wellformed_req(i) || !cx.wellformed_req(t) {
            continue;
        }
        if cx.reqs[t].method != "GET" || cx.reqs[t].target != cx.reqs[i].target || cx.reqs[t].headers != cx.reqs[i].headers {
            continue;
        }
        let (get, other) = match (cx.resp(t), cx.resp(i)) {
            (Some(a), Some(b)) => (a, b),
            _ => {
                o.inconclusive = Some("a connection got no complete response (C04)".into());
                continue;
            }
        };
        if !(get.code >= 200 && get.code < 400) {
            continue; // "for any path that GET serves" (a 304 to a conditional GET is serving it too)
        }
        o.evaluated = true;
        let target = &cx.reqs[i].target;
        let route = route_kind(cx, target);
        match cx.reqs[i].method.as_str() {
            "HEAD" => {
                if other.code != get.code {
                    o.verdicts.push(v("C09", format!("head.status.{}", route), format!("GET {} -> {}, HEAD -> {}", target, get.code, other.code), Some(i)));
                    continue;
                }
                if !other.body.is_empty() {
                    o.verdicts.push(v("C09", format!("head.has_body.{}", route), format!("HEAD {} carries {} body bytes", target, other.body.len()), Some(i)));
                }
                let (hg, ho) = (header_map(get), header_map(other));
                if hg != ho {
                    let diff: Vec<String> = hg.iter().filter(|x| !ho.contains(x)).map(|(n, v)| format!("GET has {}: {}", n, v)).chain(ho.iter().filter(|x| !hg.contains(x)).map(|(n, v)| format!("HEAD has {}: {}", n, v))).take(4).collect();
                    o.verdicts.push(v("C09", format!("head.headers_differ.{}", route), format!("HEAD {}: {}", target, diff.join("; ")), Some(i)));
                }
                if let Some(cl) = other.get("Content-Length").and_then(|x| x.trim().parse::<usize>().ok()) {
                    if cl != get.body.len() && wire::boundary_of(get.get("Content-Type").unwrap_or("")).is_none() {
                        o.verdicts.push(v("C09", format!("head.content_length.{}", route), format!("HEAD {}: Content-Length {} but the GET body has {} bytes", target, cl, get.body.len()), Some(i)));
                    }
                }
            }
            "OPTIONS" => {
                if !(other.code >= 200 && other.code < 300) {
                    o.verdicts.push(v("C09", format!("options.status.{}", route), format!("GET {} -> {}, OPTIONS -> {}", target, get.code, other.code), Some(i)));
                    continue;
                }
                if !other.body.is_empty() {
                    o.verdicts.push(v("C09", format!("options.has_body.{}", route), format!("OPTIONS {} carries {} body bytes", target, other.body.len()), Some(i)));
                }
                // preflight grants when the Origin is allowed by the configuration
                if let Some(origin) = cx.reqs[i].header("Origin") {
                    let cfg = model::cors_cfg(&cx.sc.env);
                    let allowed = cfg.allow_all || cfg.origins.iter().any(|x| x == origin);
                    if allowed {
                        if other.get("Access-Control-Allow-Origin") != Some(origin) {
                            o.verdicts.push(v("C09", format!("options.no_preflight_grant.{}", route), format!("OPTIONS {} with allowed Origin {}: Access-Control-Allow-Origin is {:?}", target, origin, other.get("Access-Control-Allow-Origin")), Some(i)));
                        } else if cfg.allow_all {
                            // "so that browser preflights succeed": with the allow-all switch on, the
                            // method and every header name the browser asks for must be granted
                            if let Some(m) = cx.reqs[i].header("Access-Control-Request-Method") {
                                let got = model::token_set(other.get("Access-Control-Allow-Methods").unwrap_or(""));
                                if !got.contains(&m.to_ascii_lowercase()) && !got.contains(&"*".to_string()) {
                                    o.verdicts.push(v("C09", format!("options.preflight_method_not_granted.{}", route), format!("OPTIONS {} (allow-all) asked for method {}: Access-Control-Allow-Methods is {:?}", target, m, other.get("Access-Control-Allow-Methods")), Some(i)));
                                }
                            }
                            if let Some(hs) = cx.reqs[i].header("Access-Control-Request-Headers") {
                                let got = model::token_set(other.get("Access-Control-Allow-Headers").unwrap_or(""));
                                let missing: Vec<String> = model::token_set(hs).into_iter().filter(|h| !got.contains(h) && !got.contains(&"*".to_string())).collect();
                                if !missing.is_empty() {
                                    o.verdicts.push(v("C09", format!("options.preflight_header_not_granted.{}", route), format!("OPTIONS {} (allow-all) asked for headers {:?}: Access-Control-Allow-Headers {:?} lacks {:?}", target, hs, other.get("Access-Control-Allow-Headers"), missing), Some(i)));
                                }
                            }
                        }
                    }
                }
            }
            _ => {}
        }
    }
}

fn route_kind(cx: &Ctx, target: &str) -> &'static str {
    let end = target.find(|c| c == '?' || c == '#').unwrap_or(target.len());
    let p = &target[..end];
    if p == "/" {
        return "root_page";
    }
    if ["/style.css", "/script.js", "/favicon.svg"].contains(&p) {
        let lk = model::lookup(&cx.fs, p);
        if lk.allowed.is_empty() {
            return "builtin_page";
        }
    }
    match model::lookup(&cx.fs, p).note {
        "file" => "static_file",
        "directory index" => "directory_index",
        ".html fallback" => "html_fallback",
        _ => "other",
    }
}

// ------------------------------------------------------------------------------------------- C11

fn c11(cx: &Ctx, o: &mut Outcome) {
    if run_cut_short(cx, o) {
        return;
    }
    let cfg = model::cors_cfg(&cx.sc.env);
    for i in cx.scripted() {
        let sc_conn = &cx.sc.conns[i];
        if !sc_conn.strict() {
            // a request that arrives in several segments (the server may have seen only a part of it):
            // whatever it saw, an Origin that is not configured gets nothing
            if !sc_conn.delivery.is_empty() && sc_conn.client == ClientMode::Normal && sc_conn.faults.is_clean() && cx.wellformed_req(i) && !cfg.allow_all {
                if let (Some(org), Some(resp)) = (cx.reqs[i].header("Origin"), cx.resp(i)) {
                    if !cfg.origins.iter().any(|x| x == org) {
                        o.evaluated = true;
                        let acs: Vec<String> = resp.headers.iter().filter(|(n, _)| n.to_ascii_lowercase().starts_with("access-control-")).map(|(n, v)| format!("{}: {}", n, v)).collect();
                        if !acs.is_empty() {
                            o.verdicts.push(v("C11", format!("grant_to_unlisted_origin.torn_request.{}", origin_relation(org, &cfg.origins)), format!("{} {} Origin: {:?} (allow_all=false origins={:?}), delivered in segments of {:?} bytes: the Origin is not one of the configured origins but the response carries {:?}", cx.reqs[i].method, cx.reqs[i].target, org, cfg.origins, sc_conn.delivery.iter().map(|s| s.len).collect::<Vec<_>>(), acs), Some(i)));
                        }
                    }
                }
            }
            continue;
        }
        if !cx.wellformed_req(i) {
            // a request whose bytes mention no Origin at all never receives grants, however the
            // rest of its head looks (as long as the request line itself is valid)
            let bytes = cx.reqs_bytes(i).to_ascii_lowercase();
            if cx.request_line_valid(i) && !contains(&bytes, b"origin") && !contains(&bytes, b"access-control") {
                if let Some(resp) = cx.resp(i) {
                    o.evaluated = true;
                    let acs: Vec<String> = resp.headers.iter().filter(|(n, _)| n.to_ascii_lowercase().starts_with("access-control-")).map(|(n, v)| format!("{}: {}", n, v)).collect();
                    if !acs.is_empty() {
                        o.verdicts.push(v("C11", "grant_without_origin.unterminated_head", format!("request {:?} carries no Origin header but the response carries {:?}", escape_trunc(&cx.reqs_bytes(i), 100), acs), Some(i)));
                    }
                }
            }
            continue;
        }
        let resp = match cx.resp(i) {
            Some(x) => x,
            None => {
                o.inconclusive = Some("a connection got no complete response (C04)".into());
                continue;
            }
        };
        o.evaluated = true;
        let rq = &cx.reqs[i];
        let origin = rq.header("Origin");
        let acs: Vec<&(String, String)> = resp.headers.iter().filter(|(n, _)| n.to_ascii_lowercase().starts_with("access-control-")).collect();
        // whatever the request looks like: with the switch off, the only origins ever named in a grant are configured ones
        if !cfg.allow_all {
            for a in resp.get_all("Access-Control-Allow-Origin") {
                if !cfg.origins.iter().any(|x| x == a) {
                    o.verdicts.push(v("C11", "grant_names_an_origin_that_is_not_configured", format!("{} {} (allow_all=false origins={:?}): Access-Control-Allow-Origin: {:?}", rq.method, rq.target, cfg.origins, a), Some(i)));
                }
            }
        }
        // several Origin lines: which one counts is the server's choice - only the rule above applies
        if rq.headers.iter().filter(|(n, _)| n.eq_ignore_ascii_case("origin")).count() > 1 {
            continue;
        }
        let get = |n: &str| resp.get(n);
        let req_txt = format!("{} {} Origin: {:?}", rq.method, rq.target, origin);
        let cfg_txt = format!("allow_all={} origins={:?}", cfg.allow_all, cfg.origins);
        match origin {
            None => {
                if !acs.is_empty() {
                    o.verdicts.push(v("C11", "grant_without_origin", format!("{} ({}): response carries {:?}", req_txt, cfg_txt, acs), Some(i)));
                }
            }
            Some(org) => {
                if cfg.allow_all {
                    if get("Access-Control-Allow-Origin") != Some(org) {
                        o.verdicts.push(v("C11", "allow_all.origin_not_echoed", format!("{} ({}): Access-Control-Allow-Origin is {:?}", req_txt, cfg_txt, get("Access-Control-Allow-Origin")), Some(i)));
                    }
                    if get("Access-Control-Allow-Credentials").map(|x| x.eq_ignore_ascii_case("true")) != Some(true) {
                        o.verdicts.push(v("C11", "allow_all.credentials_not_allowed", format!("{} ({}): Access-Control-Allow-Credentials is {:?}", req_txt, cfg_txt, get("Access-Control-Allow-Credentials")), Some(i)));
                    }
                } else {
                    let member = cfg.origins.iter().any(|x| x == org);
                    // an Origin that equals a configured one only after stripping blanks around it:
                    // a server may take either view, as long as it grants nothing to anyone else
                    let raw = rq.raw_header("Origin").unwrap_or(org);
                    if member && raw != org {
                        continue;
                    }
                    if !member {
                        if !acs.is_empty() {
                            o.verdicts.push(v("C11", format!("grant_to_unlisted_origin.{}", origin_relation(org, &cfg.origins)), format!("{} ({}): the Origin is not one of the configured origins but the response carries {:?}", req_txt, cfg_txt, acs.iter().map(|(n, v)| format!("{}: {}", n, v)).collect::<Vec<_>>()), Some(i)));
                        }
                    } else {
                        if get("Access-Control-Allow-Origin") != Some(org) {
                            o.verdicts.push(v("C11", "listed_origin_not_granted", format!("{} ({}): Access-Control-Allow-Origin is {:?}", req_txt, cfg_txt, get("Access-Control-Allow-Origin")), Some(i)));
                        }
                        let cred = get("Access-Control-Allow-Credentials").map(|x| x.eq_ignore_ascii_case("true")).unwrap_or(false);
                        if cred != cfg.credentials {
                            o.verdicts.push(v("C11", "credentials_grant_differs_from_configuration", format!("{} ({}, credentials={}): Access-Control-Allow-Credentials is {:?}", req_txt, cfg_txt, cfg.credentials, get("Access-Control-Allow-Credentials")), Some(i)));
                        }
                        if rq.method == "OPTIONS" && resp.code < 400 && get("Access-Control-Allow-Origin").is_some() {
                            let mut cmp = |name: &str, want: &Vec<String>| {
                                let got = model::token_set(get(name).unwrap_or(""));
                                let want_set = model::token_set(&want.join(","));
                                if got != want_set {
                                    o.verdicts.push(v("C11", format!("preflight_list_differs.{}", name), format!("{} ({}): {} lists {:?}, configured {:?}", req_txt, cfg_txt, name, got, want_set), Some(i)));
                                }
                            };
                            cmp("Access-Control-Allow-Methods", &cfg.methods);
                            cmp("Access-Control-Allow-Headers", &cfg.headers);
                            if get("Access-Control-Max-Age").map(|x| x.trim()) != Some(cfg.max_age.as_str()) {
                                o.verdicts.push(v("C11", "preflight_max_age_differs", format!("{} ({}): Access-Control-Max-Age {:?}, configured {:?}", req_txt, cfg_txt, get("Access-Control-Max-Age"), cfg.max_age), Some(i)));
                            }
                        }
                    }
                }
            }
        }
    }
}

fn origin_relation(org: &str, list: &[String]) -> &'static str {
    if org.is_empty() {
        return "empty";
    }
    if list.iter().any(|x| x.eq_ignore_ascii_case(org)) {
        return "case_variant";
    }
    if list.iter().any(|x| x.starts_with(org)) {
        return "prefix";
    }
    if list.iter().any(|x| x.ends_with(org)) {
        return "suffix";
    }
    if list.iter().any(|x| x.contains(org)) {
        return "substring";
    }
    if list.join(",").contains(org) {
        return "substring_of_joined_list";
    }
    "unrelated"
}

// ------------------------------------------------------------------------------------------- C08

fn c08(cx: &Ctx, o: &mut Outcome) {
    if run_cut_short(cx, o) {
        return;
    }
    // the solo references were computed before the run by fresh node processes
    let refs = crate::solo::references();
    for i in cx.scripted() {
        let sc_conn = &cx.sc.conns[i];
        if !sc_conn.strict() {
            continue;
        }
        let want = match refs.get(&sc_conn.request.0) {
            Some(w) => w,
            None => continue,
        };
        o.evaluated = true;
        let got = normalise_echo(&cx.r.conns[i].outbound);
        let want_n = normalise_echo(want);
        if got != want_n {
            // whose data is it?
            let mut foreign = None;
            for j in cx.scripted() {
                if j != i {
                    if let Some(w) = refs.get(&cx.sc.conns[j].request.0) {
                        if normalise_echo(w) == got && cx.sc.conns[j].request != sc_conn.request {
                            foreign = Some(j);
                        }
                    }
                }
            }
            let class = if foreign.is_some() { "response_of_another_connection" } else { "differs_from_solo_response" };
            o.verdicts.push(v("C08", class, format!("request {:?} served concurrently got {} bytes {:?}; alone it gets {} bytes {:?}{}", escape_trunc(&sc_conn.request.0, 100), got.len(), escape_trunc(&first_diff(&got, &want_n), 80), want_n.len(), escape_trunc(&first_diff(&want_n, &got), 80), foreign.map(|j| format!(" (it is the solo response of connection {})", j)).unwrap_or_default()), Some(i)));
        }
    }
}

fn first_diff(a: &[u8], b: &[u8]) -> Vec<u8> {
    let k = a.iter().zip(b.iter()).position(|(x, y)| x != y).unwrap_or(a.len().min(b.len()));
    let s = k.saturating_sub(20);
    a[s..(k + 60).min(a.len())].to_vec()
}

#[allow(dead_code)]
fn _unused(_: &ConnState) {}
