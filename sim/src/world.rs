//! One simulated execution inside a forked child: node start-up (real pool, real accept loop or
//! legacy loop), client tasks per phase, probe, report.

use crate::rt::*;
use crate::scenario::*;
use rws::app::App;
use rws::application::Application;
use rws::core::New;
use rws::request::Request;
use rws::response::Response;
use rws::server::{ConnectionInfo, Server};
use rws::thread_pool::ThreadPool;
use rws::verif::net::TcpListener;
use std::sync::Arc;

/// The application handed to `Server::run`: the real `App`, except on connections whose script
/// says the handler reports an error.
#[derive(Copy, Clone)]
pub struct SimApp;

impl New for SimApp {
    fn new() -> Self {
        SimApp
    }
}

impl Application for SimApp {
    fn execute(&self, request: &Request, connection: &ConnectionInfo) -> Result<Response, String> {
        let port = connection.client.port;
        let id = (port - 10000) as usize;
        let (fail, panic) = {
            let st = world().st.lock().unwrap();
            if id < st.conns.len() { (st.conns[id].faults.handler_err, st.conns[id].faults.handler_panic) } else { (false, None) }
        };
        if let Some(formatted) = panic {
            world().with(|st| {
                st.conns[id].fired.push("handler_panic".into());
                st.log("handler_panic", id, formatted as u64);
                st.reach("handler_panic_path");
            });
            if formatted {
                // now and then a long message with multi-byte characters (what a panic quoting a
                // file name or user text looks like)
                let tail = if (id as u64 + world().sc.index) % 3 == 0 { "\u{1f600}".repeat(61) } else { String::new() };
                panic!("simulated application panic on connection {} {}{}", id, "/unable to read file: ", tail);
            } else {
                panic!("simulated application panic");
            }
        }
        if fail {
            world().with(|st| {
                st.conns[id].fired.push("handler_err".into());
                st.log("handler_err", id, 0);
                st.reach("handler_error_path");
            });
            // error texts of every length, ASCII and not (they end up in the 400 page)
            let k = (id as u64).wrapping_mul(31).wrapping_add(world().sc.index.wrapping_mul(7));
            let msg = match k % 6 {
                0 => "simulated application failure".to_string(),
                1 => String::new(),
                2 => "x".repeat(200 + (k % 400) as usize),
                3 => format!("{}{}", "a".repeat((k % 3) as usize), "\u{e9}\u{4e16}\u{1f600}".repeat(40 + (k % 60) as usize)),
                4 => "failure: \u{434}\u{43e}\u{43a}\u{443}\u{43c}\u{435}\u{43d}\u{442} /tmp/\u{fc}\u{ef}.txt".to_string(),
                _ => format!("line one\r\nX-Injected: {}\r\n\r\nbody", k),
            };
            return Err(msg);
        }
        App::new().execute(request, connection)
    }
}

pub type Finish = Arc<dyn Fn(Report) + Send + Sync>;

fn make_report(end: End, probe_ids: Vec<usize>, followup_id: Option<usize>, probe_started: bool) -> Report {
    crate::fsmon::io_yields(false);
    crate::fsmon::sim_clock(false);
    let w = world();
    let st = w.st.lock().unwrap();
    let steps = shuttle::current::context_switches() as u64;
    Report {
        end,
        conns: st.conns.clone(),
        n_scripted: w.sc.conns.len(),
        probe_ids,
        followup_id,
        probe_started,
        threads: st.threads.clone(),
        panics: code_panics(),
        sig: st.sig,
        events: st.events,
        steps,
        clock: st.clock,
        sync_points: st.sync_points,
        yields_taken: st.yields_taken,
        reach: st.reach.clone(),
        trace: st.trace.clone(),
        exec_count: st.exec_count.clone(),
        done: st.done.clone(),
        max_inside: st.max_inside,
        submitted: st.submitted,
    }
}

/// panics raised by the code under test (the scheduler's own verdicts - deadlock, step bound - are
/// reported through `End`)
fn code_panics() -> Vec<PanicRec> {
    PANICS.lock().unwrap().iter().filter(|p| !p.msg.starts_with("deadlock!") && !p.msg.starts_with("exceeded max_steps")).cloned().collect()
}

/// Report built outside the execution (after shuttle gave up: deadlock or step bound).
pub fn report_after_abort(end: End) -> Report {
    crate::fsmon::io_yields(false);
    crate::fsmon::sim_clock(false);
    let w = world();
    let st = w.st.lock().unwrap();
    let n = w.sc.conns.len();
    let probe_ids: Vec<usize> = (0..st.conns.len()).filter(|&i| st.conns[i].probe).collect();
    Report {
        end,
        conns: st.conns.clone(),
        n_scripted: n,
        probe_started: !probe_ids.is_empty(),
        probe_ids,
        followup_id: None,
        threads: st.threads.clone(),
        panics: code_panics(),
        sig: st.sig,
        events: st.events,
        steps: 0,
        clock: st.clock,
        sync_points: st.sync_points,
        yields_taken: st.yields_taken,
        reach: st.reach.clone(),
        trace: st.trace.clone(),
        exec_count: st.exec_count.clone(),
        done: st.done.clone(),
        max_inside: st.max_inside,
        submitted: st.submitted,
    }
}

fn spawn_harness<F: FnOnce() + Send + 'static>(name: String, f: F) {
    shuttle::thread::Builder::new().name(name).stack_size(256 * 1024).spawn(f).expect("spawn harness task");
}

/// Entry point of the execution (runs as shuttle's main task).
pub fn world_main(sc: Scenario, trace: bool, finish: Finish) {
    let _ = WORLD.set(World::new(sc, trace));
    rws::verif::install(&BACKEND);
    let w = world();
    if w.sc.yields.iter().any(|y| y == "file_io") {
        crate::fsmon::io_yields(true);
    }
    if w.sc.yields.iter().any(|y| y == "clock") {
        crate::fsmon::sim_clock(true);
    }
    crate::fsmon::set_disk_fault(w.sc.disk_fault.as_ref());
    // reach probes of the platform knobs (set up by runner::prepare_child)
    if w.sc.engine != Engine::Pool {
        let cwd_len = std::env::current_dir().map(|d| d.as_os_str().len()).unwrap_or(usize::MAX);
        let short = cwd_len <= w.sc.tree.root.len() + 1;
        let other = unsafe { libc::geteuid() } != 0;
        w.with(|st| {
            if short {
                st.reach("served_directory_has_a_short_absolute_path");
            }
            if other {
                st.reach("server_runs_as_a_user_who_owns_no_served_file");
            }
        });
    }
    if w.sc.yields.iter().any(|y| y == "stdout_gone") {
        let h = crate::util::mix(w.sc.sched.seed ^ 0x57d0, 1);
        let errno = [libc::EPIPE, libc::ENOSPC, libc::EIO, libc::EBADF, libc::EAGAIN][(h % 5) as usize];
        crate::fsmon::stdout_gone(errno, ((h >> 8) % 24) as i64);
    }
    match w.sc.engine {
        Engine::Pool => pool_world(finish),
        Engine::System | Engine::Legacy => node_world(finish),
    }
}

/// absolute scratch base, remembered before the owner removes the working directory
static OWNER_BASE: std::sync::OnceLock<std::path::PathBuf> = std::sync::OnceLock::new();

fn node_world(finish: Finish) {
    if let Ok(d) = std::env::current_dir() {
        let depth = world().sc.tree.root.split('/').filter(|x| !x.is_empty()).count();
        let mut b = Some(d);
        for _ in 0..depth {
            b = b.and_then(|x| x.parent().map(|p| p.to_path_buf()));
        }
        if let Some(b) = b {
            let _ = OWNER_BASE.set(b);
        }
    }
    let w = world();
    let sc = &w.sc;
    let pool = ThreadPool::new(sc.workers);
    let listener = TcpListener::from_backend(0);
    let engine = sc.engine;
    rws::verif::thread::Builder::new()
        .name("accept".to_string())
        .spawn(move || {
            match engine {
                Engine::System => Server::run(listener, pool, SimApp),
                _ => legacy_accept_loop(listener, pool),
            }
            world().with(|st| {
                if !st.world_over {
                    st.server_exited = true;
                    st.log("server_exited", usize::MAX, 0);
                }
                st.note(CV_MAIN);
            });
            // the pool must not be torn down: in production the process exits here
            loop {
                world().block_on(CV_LISTENER, |_| None::<()>);
            }
        })
        .expect("spawn accept thread");

    let mut phases: Vec<u32> = sc.conns.iter().map(|c| c.phase).collect();
    phases.sort();
    phases.dedup();
    for ph in phases {
        // the owner's own changes to the tree (not the server's: the mutation monitor looks away)
        for op in sc.owner_ops.iter().filter(|o| o.before_phase == ph) {
            let armed = crate::fsmon::is_armed();
            crate::fsmon::arm(false);
            crate::fsmon::io_yields(false);
            if let Some(base) = OWNER_BASE.get().cloned() {
                let p = base.join(&op.path);
                match op.kind.as_str() {
                    "remove_tree" => {
                        let _ = std::fs::remove_dir_all(&p);
                    }
                    "remove_file" => {
                        let _ = std::fs::remove_file(&p);
                    }
                    "truncate" => {
                        let _ = std::fs::OpenOptions::new().write(true).open(&p).and_then(|f| f.set_len(0));
                    }
                    "replace_with_empty_dir" => {
                        let _ = std::fs::remove_dir_all(&p);
                        let _ = std::fs::create_dir_all(&p);
                    }
                    _ => {}
                }
                w.with(|st| {
                    st.log("owner_op", usize::MAX, crate::util::hash_str(&op.kind));
                    st.reach("owner_changed_the_tree_between_phases");
                });
            }
            if w.sc.yields.iter().any(|y| y == "file_io") {
                crate::fsmon::io_yields(true);
            }
            crate::fsmon::arm(armed);
        }
        let ids: Vec<usize> = sc.conns.iter().filter(|c| c.phase == ph).map(|c| c.id).collect();
        for &id in &ids {
            let c = sc.conns[id].clone();
            spawn_harness(format!("c{}", id), move || world().client(&c));
        }
        let exited = w.block_on(CV_MAIN, |st| {
            if st.server_exited {
                return Some(true);
            }
            if ids.iter().all(|&i| conn_ended(&st.conns[i])) {
                Some(false)
            } else {
                None
            }
        });
        if exited {
            finish(make_report(End::ServerExited, vec![], None, false));
            return;
        }
    }

    // probe phase: faults off
    crate::fsmon::stop_new_disk_faults();
    let (probe_req, capacity) = match &sc.probe {
        Probe::None => {
            finish(make_report(End::Completed, vec![], None, false));
            return;
        }
        Probe::FollowUp { request } => (request.0.clone(), false),
        Probe::Capacity { request } => (request.0.clone(), true),
    };
    let mut probe_ids = vec![];
    if capacity {
        let n = w.with(|st| st.threads.iter().filter(|t| t.name != "accept").count());
        let base = w.with(|st| {
            let base = st.conns.len();
            for _ in 0..n {
                st.conns.push(ConnState { probe: true, ..Default::default() });
            }
            st.log("probe_start", usize::MAX, n as u64);
            base
        });
        probe_ids = (base..base + n).collect();
        for &id in &probe_ids {
            let req = probe_req.clone();
            let ids = probe_ids.clone();
            spawn_harness(format!("p{}", id), move || {
                let w = world();
                w.with(|st| {
                    st.conns[id].queued = true;
                    st.accept_q.push_back(AcceptItem::Conn(id));
                    st.log("connect", id, 0);
                    st.note(CV_LISTENER);
                });
                // rendezvous: nobody sends before a read is pending on every probe connection
                w.block_on(CV_AUX, |st| {
                    if ids.iter().all(|&i| st.conns[i].server_waiting_read || st.conns[i].read_calls > 0) {
                        Some(())
                    } else {
                        None
                    }
                });
                w.with(|st| {
                    st.conns[id].inbound.extend_from_slice(&req);
                    st.log("deliver", id, req.len() as u64);
                    st.note(CV_BASE + 2 * id);
                });
                w.block_on(CV_BASE + 2 * id + 1, |st| if st.conns[id].server_closed { Some(()) } else { None });
                w.with(|st| {
                    st.conns[id].client_done = true;
                    st.note(CV_MAIN);
                });
            });
        }
        let ids = probe_ids.clone();
        let exited = w.block_on(CV_MAIN, |st| {
            if st.server_exited {
                return Some(true);
            }
            if ids.iter().all(|&i| conn_ended(&st.conns[i])) {
                Some(false)
            } else {
                None
            }
        });
        if exited {
            finish(make_report(End::ServerExited, probe_ids, None, true));
            return;
        }
        w.with(|st| st.reach("capacity_probe_completed"));
    }
    // follow-up connection
    let fid = w.with(|st| {
        let id = st.conns.len();
        st.conns.push(ConnState { probe: true, ..Default::default() });
        st.conns[id].inbound.extend_from_slice(&probe_req);
        st.conns[id].queued = true;
        st.accept_q.push_back(AcceptItem::Conn(id));
        st.log("followup", id, 0);
        st.note(CV_LISTENER);
        id
    });
    let exited = w.block_on(CV_MAIN, |st| {
        if st.server_exited {
            return Some(true);
        }
        if st.conns[fid].server_closed {
            Some(false)
        } else {
            None
        }
    });
    let end = if exited { End::ServerExited } else { End::Completed };
    finish(make_report(end, probe_ids, Some(fid), true));
}

/// What an embedder of the legacy API writes: accept, hand `Server::process_request` to the pool.
fn legacy_accept_loop(listener: TcpListener, pool: ThreadPool) {
    for stream in listener.incoming() {
        let stream = match stream {
            Ok(s) => s,
            Err(_) => continue,
        };
        let peer = match stream.peer_addr() {
            Ok(p) => p,
            Err(_) => continue,
        };
        pool.execute(move || {
            Server::process_request(stream, peer);
        });
    }
}

// ---------------------------------------------------------------------------------------- pool world

fn pool_world(finish: Finish) {
    let w = world();
    let p = w.sc.pool.clone().expect("pool scenario");
    let mut pool_owner = Some(Arc::new(ThreadPool::new(p.size)));
    let n = p.tasks.len();
    let size = p.size;
    for s in 0..p.submitters.max(1) {
        let pool = pool_owner.as_ref().unwrap().clone();
        if p.drop_after_submit && s + 1 == p.submitters.max(1) {
            // the submitters hold the only handles: the pool goes away with the last of them
            pool_owner = None;
        }
        let tasks = p.tasks.clone();
        let subs = p.submitters.max(1);
        spawn_harness(format!("s{}", s), move || {
            for (i, kind) in tasks.iter().enumerate() {
                if i % subs != s {
                    continue;
                }
                let kind = *kind;
                world().with(|st| {
                    st.submitted += 1;
                    st.log("submit", i, 0);
                });
                pool.execute(move || {
                    let w = world();
                    w.with(|st| {
                        st.exec_count[i] += 1;
                        st.inside_now += 1;
                        if st.inside_now > st.max_inside {
                            st.max_inside = st.inside_now;
                        }
                        st.log("task_start", i, 0);
                    });
                    match kind {
                        TaskKind::Instant => {}
                        TaskKind::Long(k) => {
                            for _ in 0..k {
                                w.switch();
                            }
                        }
                        TaskKind::Rendezvous => {
                            w.with(|st| {
                                st.rdv_arrived += 1;
                                st.note(CV_AUX);
                            });
                            w.block_on(CV_AUX, |st| if st.rdv_arrived >= size { Some(()) } else { None });
                            w.with(|st| st.reach("rendezvous_of_n_completed"));
                        }
                        TaskKind::Round(r) => {
                            w.with(|st| {
                                *st.round_arrived.entry(r).or_insert(0) += 1;
                                st.note(CV_AUX);
                            });
                            w.block_on(CV_AUX, |st| if st.round_arrived.get(&r).copied().unwrap_or(0) >= size { Some(()) } else { None });
                            w.with(|st| {
                                if r % 1000 == 999 {
                                    st.reach("thousand_rendezvous_rounds_completed");
                                }
                                // finished rounds are forgotten (the map stays small)
                                if r >= 2 {
                                    st.round_arrived.remove(&(r - 2));
                                }
                            });
                        }
                        TaskKind::Gated => {
                            w.block_on(CV_AUX, |st| if st.gate_open { Some(()) } else { None });
                        }
                        TaskKind::Panicking => {
                            w.with(|st| {
                                st.inside_now -= 1;
                                st.done[i] = true;
                                st.log("task_panics", i, 0);
                                st.reach("task_panicked_inside_pool");
                                st.note(CV_MAIN);
                            });
                            w.flush();
                            panic!("scripted task panic");
                        }
                    }
                    w.with(|st| {
                        st.inside_now -= 1;
                        st.done[i] = true;
                        st.log("task_done", i, 0);
                        st.note(CV_MAIN);
                    });
                });
            }
        });
    }
    let gated: Vec<usize> = (0..n).filter(|&i| p.tasks[i] == TaskKind::Gated).collect();
    if !gated.is_empty() {
        // a slow task delays at most one worker: everything else completes while it is held
        w.block_on(CV_MAIN, |st| {
            if (0..n).all(|i| st.done[i] || gated.contains(&i)) {
                Some(())
            } else {
                None
            }
        });
        w.with(|st| {
            st.gate_open = true;
            st.reach("others_completed_while_gated_task_held");
            st.log("gate_open", usize::MAX, 0);
            st.note(CV_AUX);
        });
    }
    w.block_on(CV_MAIN, |st| if st.done.iter().all(|d| *d) { Some(()) } else { None });
    // let stragglers (a duplicated job, say) show themselves: idle workers get to run
    for _ in 0..(2 * size + 2) {
        w.switch();
    }
    finish(make_report(End::Completed, vec![], None, false));
}
