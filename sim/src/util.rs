//! Small deterministic helpers: PRNG, hashing, byte-string (de)serialisation.

use serde::{Deserialize, Deserializer, Serialize, Serializer};

pub fn splitmix64(x: u64) -> u64 {
    let mut z = x.wrapping_add(0x9E37_79B9_7F4A_7C15);
    z = (z ^ (z >> 30)).wrapping_mul(0xBF58_476D_1CE4_E5B9);
    z = (z ^ (z >> 27)).wrapping_mul(0x94D0_49BB_1331_11EB);
    z ^ (z >> 31)
}

pub fn mix(a: u64, b: u64) -> u64 {
    splitmix64(a ^ splitmix64(b.wrapping_add(0x1234_5678_9ABC_DEF1)))
}

pub fn hash_str(s: &str) -> u64 {
    fnv(s.as_bytes())
}

pub fn fnv(b: &[u8]) -> u64 {
    let mut h: u64 = 0xcbf2_9ce4_8422_2325;
    for &x in b {
        h ^= x as u64;
        h = h.wrapping_mul(0x0000_0100_0000_01B3);
    }
    h
}

/// xoshiro256** seeded through splitmix64. The only source of randomness in the harness.
#[derive(Clone, Debug)]
pub struct Rng {
    s: [u64; 4],
}

impl Rng {
    pub fn new(seed: u64) -> Rng {
        let mut x = seed;
        let mut s = [0u64; 4];
        for v in s.iter_mut() {
            x = splitmix64(x);
            *v = x;
        }
        Rng { s }
    }
    pub fn next(&mut self) -> u64 {
        let r = self.s[1].wrapping_mul(5).rotate_left(7).wrapping_mul(9);
        let t = self.s[1] << 17;
        self.s[2] ^= self.s[0];
        self.s[3] ^= self.s[1];
        self.s[1] ^= self.s[2];
        self.s[0] ^= self.s[3];
        self.s[2] ^= t;
        self.s[3] = self.s[3].rotate_left(45);
        r
    }
    /// uniform in 0..n (n > 0)
    pub fn below(&mut self, n: usize) -> usize {
        if n <= 1 {
            return 0;
        }
        (self.next() % (n as u64)) as usize
    }
    /// uniform in lo..=hi
    pub fn range(&mut self, lo: usize, hi: usize) -> usize {
        if hi <= lo {
            return lo;
        }
        lo + self.below(hi - lo + 1)
    }
    pub fn chance(&mut self, num: usize, den: usize) -> bool {
        self.below(den) < num
    }
    pub fn pick<'a, T>(&mut self, xs: &'a [T]) -> &'a T {
        &xs[self.below(xs.len())]
    }
    pub fn shuffle<T>(&mut self, xs: &mut [T]) {
        for i in (1..xs.len()).rev() {
            let j = self.below(i + 1);
            xs.swap(i, j);
        }
    }
    pub fn bytes(&mut self, n: usize) -> Vec<u8> {
        (0..n).map(|_| self.next() as u8).collect()
    }
    pub fn fork(&mut self) -> Rng {
        Rng::new(self.next())
    }
}

/// Byte string that serialises as readable text: printable ASCII literally, `\\` for a
/// backslash, `\r` `\n` `\t`, everything else as `\xNN`.
#[derive(Clone, PartialEq, Eq, Default, Hash)]
pub struct Bytes(pub Vec<u8>);

impl std::fmt::Debug for Bytes {
    fn fmt(&self, f: &mut std::fmt::Formatter<'_>) -> std::fmt::Result {
        write!(f, "b\"{}\"", escape(&self.0))
    }
}

pub fn escape(b: &[u8]) -> String {
    let mut s = String::with_capacity(b.len() + 8);
    for &c in b {
        match c {
            b'\\' => s.push_str("\\\\"),
            b'\r' => s.push_str("\\r"),
            b'\n' => s.push_str("\\n"),
            b'\t' => s.push_str("\\t"),
            0x20..=0x7e => s.push(c as char),
            _ => s.push_str(&format!("\\x{:02x}", c)),
        }
    }
    s
}

pub fn escape_trunc(b: &[u8], max: usize) -> String {
    if b.len() <= max {
        escape(b)
    } else {
        format!("{}...(+{} bytes)", escape(&b[..max]), b.len() - max)
    }
}

pub fn unescape(s: &str) -> Result<Vec<u8>, String> {
    let b = s.as_bytes();
    let mut out = Vec::with_capacity(b.len());
    let mut i = 0;
    while i < b.len() {
        if b[i] == b'\\' {
            if i + 1 >= b.len() {
                return Err("dangling backslash".into());
            }
            match b[i + 1] {
                b'\\' => {
                    out.push(b'\\');
                    i += 2;
                }
                b'r' => {
                    out.push(b'\r');
                    i += 2;
                }
                b'n' => {
                    out.push(b'\n');
                    i += 2;
                }
                b't' => {
                    out.push(b'\t');
                    i += 2;
                }
                b'x' => {
                    if i + 3 >= b.len() {
                        return Err("short \\x escape".into());
                    }
                    let h = std::str::from_utf8(&b[i + 2..i + 4]).map_err(|e| e.to_string())?;
                    out.push(u8::from_str_radix(h, 16).map_err(|e| e.to_string())?);
                    i += 4;
                }
                c => return Err(format!("bad escape \\{}", c as char)),
            }
        } else {
            out.push(b[i]);
            i += 1;
        }
    }
    Ok(out)
}

impl Serialize for Bytes {
    fn serialize<S: Serializer>(&self, s: S) -> Result<S::Ok, S::Error> {
        s.serialize_str(&escape(&self.0))
    }
}

impl<'de> Deserialize<'de> for Bytes {
    fn deserialize<D: Deserializer<'de>>(d: D) -> Result<Bytes, D::Error> {
        let s = String::deserialize(d)?;
        unescape(&s).map(Bytes).map_err(serde::de::Error::custom)
    }
}

impl From<Vec<u8>> for Bytes {
    fn from(v: Vec<u8>) -> Bytes {
        Bytes(v)
    }
}
impl From<&str> for Bytes {
    fn from(v: &str) -> Bytes {
        Bytes(v.as_bytes().to_vec())
    }
}
impl From<String> for Bytes {
    fn from(v: String) -> Bytes {
        Bytes(v.into_bytes())
    }
}

pub fn find(hay: &[u8], needle: &[u8]) -> Option<usize> {
    if needle.is_empty() {
        return Some(0);
    }
    if hay.len() < needle.len() {
        return None;
    }
    hay.windows(needle.len()).position(|w| w == needle)
}

pub fn contains(hay: &[u8], needle: &[u8]) -> bool {
    find(hay, needle).is_some()
}

// ------------------------------------------------------------------------------------------- gzip
// "Stored" gzip only (deflate blocks of type 00): enough to plant precompressed siblings that really
// are the gzip form of a file, and to check that a body declared as gzip decodes to that file.

pub fn crc32(data: &[u8]) -> u32 {
    let mut crc = 0xFFFF_FFFFu32;
    for &b in data {
        crc ^= b as u32;
        for _ in 0..8 {
            crc = if crc & 1 != 0 { (crc >> 1) ^ 0xEDB8_8320 } else { crc >> 1 };
        }
    }
    !crc
}

pub fn gzip_stored(data: &[u8]) -> Vec<u8> {
    let mut v = vec![0x1f, 0x8b, 0x08, 0, 0, 0, 0, 0, 0, 0x03];
    let mut chunks: Vec<&[u8]> = data.chunks(0xFFFF).collect();
    if chunks.is_empty() {
        chunks.push(&[]);
    }
    for (i, c) in chunks.iter().enumerate() {
        v.push(if i + 1 == chunks.len() { 1 } else { 0 });
        let n = c.len() as u16;
        v.extend_from_slice(&n.to_le_bytes());
        v.extend_from_slice(&(!n).to_le_bytes());
        v.extend_from_slice(c);
    }
    v.extend_from_slice(&crc32(data).to_le_bytes());
    v.extend_from_slice(&(data.len() as u32).to_le_bytes());
    v
}

pub enum Gunzip {
    Ok(Vec<u8>),
    /// not a gzip member at all (magic, method, truncated, checksum)
    NotGzip(&'static str),
    /// a gzip member with compressed blocks: cannot be decoded here
    Unsupported,
}

pub fn gunzip_stored(b: &[u8]) -> Gunzip {
    if b.len() < 18 || b[0] != 0x1f || b[1] != 0x8b {
        return Gunzip::NotGzip("no gzip magic");
    }
    if b[2] != 8 {
        return Gunzip::NotGzip("unknown compression method");
    }
    if b[3] != 0 {
        return Gunzip::Unsupported;
    }
    let mut i = 10;
    let mut out = vec![];
    loop {
        if i >= b.len() {
            return Gunzip::NotGzip("truncated");
        }
        let hdr = b[i];
        if hdr & 0b110 != 0 {
            return Gunzip::Unsupported;
        }
        if i + 5 > b.len() {
            return Gunzip::NotGzip("truncated");
        }
        let n = u16::from_le_bytes([b[i + 1], b[i + 2]]) as usize;
        let nn = u16::from_le_bytes([b[i + 3], b[i + 4]]);
        if nn != !(n as u16) {
            return Gunzip::NotGzip("stored block length check");
        }
        i += 5;
        if i + n > b.len() {
            return Gunzip::NotGzip("truncated");
        }
        out.extend_from_slice(&b[i..i + n]);
        i += n;
        if hdr & 1 == 1 {
            break;
        }
    }
    if i + 8 > b.len() {
        return Gunzip::NotGzip("truncated trailer");
    }
    let crc = u32::from_le_bytes([b[i], b[i + 1], b[i + 2], b[i + 3]]);
    let isize = u32::from_le_bytes([b[i + 4], b[i + 5], b[i + 6], b[i + 7]]);
    if crc != crc32(&out) || isize != out.len() as u32 {
        return Gunzip::NotGzip("checksum or length");
    }
    Gunzip::Ok(out)
}
