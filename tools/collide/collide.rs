// tools/collide/collide.rs - finds, for well-known weak 32-bit string hashes, a query suffix that makes a
// climbing request target collide with a benign one:  H(benign) == H(climbing + suffix).
// Output: lines "hash<TAB>benign<TAB>climbing+suffix" for sim/src/gen/collisions.txt (generated once, committed;
// `rustc -O collide.rs && ./collide > ../../sim/src/gen/collisions.txt`, about a minute on 16 cores).
use std::sync::atomic::{AtomicBool, Ordering};
use std::sync::Arc;

type H = fn(u32, u8) -> u32;
fn fnv1a(h: u32, b: u8) -> u32 { (h ^ b as u32).wrapping_mul(16777619) }
fn fnv1(h: u32, b: u8) -> u32 { h.wrapping_mul(16777619) ^ b as u32 }
fn djb2(h: u32, b: u8) -> u32 { h.wrapping_mul(33).wrapping_add(b as u32) }
fn djb2x(h: u32, b: u8) -> u32 { h.wrapping_mul(33) ^ b as u32 }
fn sdbm(h: u32, b: u8) -> u32 { (b as u32).wrapping_add(h << 6).wrapping_add(h << 16).wrapping_sub(h) }
fn java31(h: u32, b: u8) -> u32 { h.wrapping_mul(31).wrapping_add(b as u32) }
fn oaat(h: u32, b: u8) -> u32 { let mut h = h.wrapping_add(b as u32); h = h.wrapping_add(h << 10); h ^ (h >> 6) }
fn crc32(h: u32, b: u8) -> u32 { let mut c = (h ^ b as u32) & 0xff; for _ in 0..8 { c = if c & 1 != 0 { 0xEDB88320 ^ (c >> 1) } else { c >> 1 }; } c ^ (h >> 8) }
fn fin_id(h: u32) -> u32 { h }
fn fin_oaat(h: u32) -> u32 { let mut h = h.wrapping_add(h << 3); h ^= h >> 11; h.wrapping_add(h << 15) }
fn fin_crc(h: u32) -> u32 { !h }

fn run(step: H, init: u32, fin: fn(u32) -> u32, s: &[u8]) -> u32 { fin(s.iter().fold(init, |h, &b| step(h, b))) }

const ALPHA: &[u8] = b"abcdefghijklmnopqrstuvwxyz0123456789";

fn search(name: &str, step: H, init: u32, fin: fn(u32) -> u32, benign: &str, climbing: &str) {
    let want = run(step, init, fin, benign.as_bytes());
    let prefix = climbing.as_bytes().iter().fold(init, |h, &b| step(h, b));
    let found = Arc::new(AtomicBool::new(false));
    let mut handles = vec![];
    for t in 0..ALPHA.len() {
        let found = found.clone();
        let (name, benign, climbing) = (name.to_string(), benign.to_string(), climbing.to_string());
        handles.push(std::thread::spawn(move || {
            // suffix = ALPHA[t] + 6 more characters: 36^7 = 7.8e10 candidates over all threads
            let h0 = step(prefix, ALPHA[t]);
            let mut idx = [0usize; 6];
            loop {
                let mut h = h0;
                for &i in &idx { h = step(h, ALPHA[i]); }
                if fin(h) == want {
                    if !found.swap(true, Ordering::SeqCst) {
                        let mut s = vec![ALPHA[t]];
                        s.extend(idx.iter().map(|&i| ALPHA[i]));
                        println!("{}\t{}\t{}{}", name, benign, climbing, String::from_utf8(s).unwrap());
                    }
                    return;
                }
                if found.load(Ordering::Relaxed) { return; }
                let mut k = 5;
                loop {
                    idx[k] += 1;
                    if idx[k] < ALPHA.len() { break; }
                    idx[k] = 0;
                    if k == 0 { return; }
                    k -= 1;
                }
            }
        }));
    }
    for h in handles { let _ = h.join(); }
}

fn main() {
    let only: Vec<String> = std::env::args().skip(1).collect();
    let hashes: Vec<(&str, H, u32, fn(u32) -> u32)> = vec![
        ("fnv1a32", fnv1a, 2166136261, fin_id), ("fnv1_32", fnv1, 2166136261, fin_id), ("djb2", djb2, 5381, fin_id), ("djb2_xor", djb2x, 5381, fin_id),
        ("sdbm", sdbm, 0, fin_id), ("java31", java31, 0, fin_id), ("jenkins_oaat", oaat, 0, fin_oaat), ("crc32", crc32, 0xFFFFFFFF, fin_crc),
    ];
    let pairs = [("/a.txt", "/../a.txt?v="), ("/index.html", "/../index.html?v="), ("/page.html", "/../../a.txt?v="), ("/", "/../?v=")];
    for (name, step, init, fin) in hashes.iter().filter(|h| only.is_empty() || only.iter().any(|o| o == h.0)) {
        for (b, c) in &pairs {
            search(name, *step, *init, *fin, b, c);
        }
    }
}
