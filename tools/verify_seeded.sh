#!/bin/bash
# tools/verify_seeded.sh <dir with patch.diff [demo.diff|demo.sh]> : confirm in a scratch worktree that the
# change compiles, passes the pinned suite, and that its demonstration fails with it and passes without it.
set -u
d="$(cd "$1" && pwd)"
WT="${VERIFY_WT:-/tmp/verify-wt}"   # VERIFY_WT: another scratch worktree (several verifications at a time)
LOGTAG=$(basename "$WT")
export CARGO_NET_OFFLINE=true
if [ ! -d $WT ]; then git -C /repo worktree add -q --detach $WT HEAD || exit 2; cp /repo/Cargo.lock $WT/; fi
cd $WT || exit 2
git checkout -q --detach "$(git -C /repo rev-parse HEAD)" 2>/dev/null
git checkout -q -- . ; git clean -fdq -e target -e Cargo.lock >/dev/null
git apply "$d/patch.diff" || { echo "RESULT patch_applies=no"; exit 1; }
build=ok; cargo build --offline >/tmp/vs-build-$LOGTAG.log 2>&1 || build=FAIL
suite=""
for i in 1 2 3; do
  out=$(cargo test --workspace --no-fail-fast --offline 2>&1)
  res=$(echo "$out" | grep -E "^test result" | head -1)
  failed=$(echo "$out" | grep -E "^test [A-Za-z0-9_:]+ \.\.\. FAILED" | sed 's/^test //; s/ \.\.\. FAILED//' | grep -vE "command_line_args::tests::parse|static_file_cors_options_preflight_request_client_hints" | tr '\n' ' ')
  suite="$res"
  [ -z "$failed" ] && break
done
if [ -n "$failed" ]; then
  # tests of the suite share one process under cargo test; the pinned baseline runs one process per
  # test (nextest) - the closest here is one test at a time
  out=$(cargo test --workspace --no-fail-fast --offline -- --test-threads=1 2>&1)
  res=$(echo "$out" | grep -E "^test result" | head -1)
  failed=$(echo "$out" | grep -E "^test [A-Za-z0-9_:]+ \.\.\. FAILED" | sed 's/^test //; s/ \.\.\. FAILED//' | tr '\n' ' ')
  suite="$res (one test at a time)"
fi
demo_with="n/a"; demo_without="n/a"; name=""
if [ -f "$d/demo.diff" ]; then
  git apply "$d/demo.diff" || { echo "RESULT demo_applies=no"; }
  name=$(grep -A3 -E '^\+\s*#\[test\]' "$d/demo.diff" | grep -oE 'fn [a-zA-Z0-9_]+' | head -1 | sed 's/fn //')
  o=$(cargo test --offline "$name" 2>&1); if echo "$o" | grep -qE "test result: ok. [1-9]"; then demo_with=PASS; elif echo "$o" | grep -qE "FAILED|panicked|SIGSEGV|signal|overflowed"; then demo_with=FAIL; else demo_with="?"; fi
  git apply -R "$d/patch.diff"
  o=$(cargo test --offline "$name" 2>&1); if echo "$o" | grep -qE "test result: ok. [1-9]"; then demo_without=PASS; elif echo "$o" | grep -qE "FAILED|panicked"; then demo_without=FAIL; else demo_without="?"; fi
elif [ -f "$d/demo.sh" ]; then
  (bash "$d/demo.sh" $WT >/tmp/vs-demo-$LOGTAG.log 2>&1) && demo_with=PASS || demo_with=FAIL
  git apply -R "$d/patch.diff"
  (bash "$d/demo.sh" $WT >/tmp/vs-demo-$LOGTAG.log 2>&1) && demo_without=PASS || demo_without=FAIL
fi
git checkout -q -- . ; git clean -fdq -e target -e Cargo.lock >/dev/null
echo "RESULT build=$build suite=[$suite] other_failed=[${failed:-}] demo=$name demo_with_change=$demo_with demo_without_change=$demo_without"
