#!/bin/bash
# tools/mirror.sh : copies /repo's current working tree (src/) to <this checkout>/sim/shadow/src-gen/ and routes
# every use of std's thread and synchronisation items through the seam of src/verif/mod.rs:
#   std::sync::X  -> crate::verif::sync::X      std::thread -> crate::verif::thread
#   thread_local! -> crate::verif::thread_local!      std::env -> crate::verif::env (reads and writes of
#   the process environment are scheduling points)
# so that locks, channels, atomics, statics and threads a change introduces *anywhere* in the crate are
# scheduling points of the simulator, not only those in the files that already carry seam imports.
# Line numbers are unchanged. Files whose content did not change keep their modification time.
set -eu
SRC=/repo/src
HERE="$(cd "$(dirname "$0")/.." && pwd)"
DST="$HERE/sim/shadow/src-gen"
NEW="$HERE/sim/shadow/.src-gen.new.$$"
rm -rf "$NEW"; mkdir -p "$NEW" "$DST"
cp -r "$SRC"/. "$NEW"/
find "$NEW" -name '*.rs' ! -path "$NEW/verif/*" -print0 | xargs -0 sed -i -E \
  -e 's/\bstd::sync::/crate::verif::sync::/g' \
  -e 's/\bstd::thread\b/crate::verif::thread/g' \
  -e 's/\bstd::env\b/crate::verif::env/g' \
  -e 's/\buse std::\{env\};/use crate::verif::{env};/g' \
  -e 's/(^|[^:A-Za-z0-9_])thread_local!/\1crate::verif::thread_local!/g'
# grouped imports: `use std::{fs::File, sync::Mutex, thread};` (also nested and over several lines) - the
# sync / thread / env items move into a `use crate::verif::{..};` on the same lines
python3 - "$NEW" <<'PY'
import os, re, sys
root = sys.argv[1]
pat = re.compile(r'(?m)^(\s*)((?:pub(?:\([a-z ]+\))?\s+)?use\s+(?:::)?std::)\{')
def split_top(body):
    items, depth, cur = [], 0, ''
    for ch in body:
        if ch == '{': depth += 1
        if ch == '}': depth -= 1
        if ch == ',' and depth == 0:
            items.append(cur); cur = ''
        else:
            cur += ch
    if cur.strip(): items.append(cur)
    return items
for d, _, fs in os.walk(root):
    if os.path.join(root, 'verif') == d: continue
    for f in fs:
        if not f.endswith('.rs'): continue
        p = os.path.join(d, f); s = open(p, encoding='utf-8', errors='surrogateescape').read(); out = ''; pos = 0; changed = False
        for m in pat.finditer(s):
            if m.start() < pos: continue
            i = m.end(); depth = 1
            while i < len(s) and depth:
                depth += {'{': 1, '}': -1}.get(s[i], 0); i += 1
            j = s.find(';', i)
            if depth or j < 0 or s[i:j].strip(): continue
            body = s[m.end():i - 1]
            items = split_top(body)
            moved = [x for x in items if re.match(r'\s*(sync|thread|env)\b', x)]
            if not moved: continue
            rest = [x for x in items if x not in moved]
            head = m.group(2)
            prefix = head[:head.index('use')]
            text = ''
            if rest: text += head + '{' + ','.join(rest).replace('\n', ' ') + '}; '
            text += prefix + 'use crate::verif::{' + ','.join(moved).replace('\n', ' ') + '};'
            text += '\n' * s[m.start():j + 1].count('\n')   # line numbers stay
            out += s[pos:m.start()] + m.group(1) + text; pos = j + 1; changed = True
        if changed:
            open(p, 'w', encoding='utf-8', errors='surrogateescape').write(out + s[pos:])
PY
sed -i -E -e 's/\buse std::sync;/use crate::verif::sync;/g' $(find "$NEW" -name '*.rs' ! -path "$NEW/verif/*")
rsync -rc --delete "$NEW"/ "$DST"/
rm -rf "$NEW"
