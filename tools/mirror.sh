#!/bin/bash
# tools/mirror.sh : copies /repo's current working tree (src/) to <this checkout>/sim/shadow/src-gen/ and routes
# every use of std's thread and synchronisation items through the seam of src/verif/mod.rs:
#   std::sync::X  -> crate::verif::sync::X      std::thread -> crate::verif::thread
#   thread_local! -> crate::verif::thread_local!      std::env -> crate::verif::env (reads and writes of
#   the process environment are scheduling points)
# so that locks, channels, atomics, statics and threads a change introduces *anywhere* in the crate are
# scheduling points of the simulator, not only those in the files that already carry seam imports.
# Line numbers are unchanged. Files whose content did not change keep their modification time.
set -eu
SRC=/repo/src
HERE="$(cd "$(dirname "$0")/.." && pwd)"
DST="$HERE/sim/shadow/src-gen"
NEW="$HERE/sim/shadow/.src-gen.new.$$"
rm -rf "$NEW"; mkdir -p "$NEW" "$DST"
cp -r "$SRC"/. "$NEW"/
find "$NEW" -name '*.rs' ! -path "$NEW/verif/*" -print0 | xargs -0 sed -i -E \
  -e 's/\bstd::sync::/crate::verif::sync::/g' \
  -e 's/\bstd::thread\b/crate::verif::thread/g' \
  -e 's/\bstd::env\b/crate::verif::env/g' \
  -e 's/\buse std::\{env\};/use crate::verif::{env};/g' \
  -e 's/(^|[^:A-Za-z0-9_])thread_local!/\1crate::verif::thread_local!/g'
rsync -rc --delete "$NEW"/ "$DST"/
rm -rf "$NEW"
