#!/usr/bin/env python3
"""tools/keep_seeded.py <src dir> <seeded id> <check> [<check> ...]
Confirms a sub-agent's change in a scratch worktree (tools/verify_seeded.sh), runs the named quick
checks against it (tools/mutcheck.sh) and files it under /verif/seeded/<id>/."""
import json, os, shutil, subprocess, sys, re
src, sid, checks = sys.argv[1], sys.argv[2], sys.argv[3:]
# KEEP_VERIFY_LINE: the RESULT line of a verification already done (tools/verify_seeded.sh with VERIFY_WT, in parallel)
ver = os.environ.get('KEEP_VERIFY_LINE') or subprocess.run(['/verif/tools/verify_seeded.sh', src], capture_output=True, text=True, errors='replace').stdout.strip().split('\n')[-1]
print(ver)
ok = 'build=ok' in ver and 'other_failed=[]' in ver and 'demo_with_change=FAIL' in ver and 'demo_without_change=PASS' in ver
det = subprocess.run(['/verif/tools/mutcheck.sh', os.path.join(src, 'patch.diff')] + checks, capture_output=True, text=True, errors='replace').stdout
print(det)
results = {}
for line in det.split('\n'):
    m = re.match(r'^(C\d\d) exit=(\d+)', line)
    if m:
        cur = m.group(1); results[cur] = {'exit': int(m.group(2)), 'classes': []}
    m = re.search(r'violation class (\S+)', line)
    if m and results:
        results[cur]['classes'].append(m.group(1))
meta = json.load(open(os.path.join(src, 'meta.json')))
if 'needs_to_manifest' in meta:  # re-filing an already kept change
    meta = {'property': meta['property'], 'title': meta['title'], 'what': meta['what'], 'needs': meta['needs_to_manifest'], 'ran': meta['author_ran']}
dst = f'/verif/seeded/{sid}'
os.makedirs(dst, exist_ok=True)
if os.path.realpath(src) != os.path.realpath(dst):
    for f in os.listdir(src):
        if f != 'meta.json':
            shutil.copy(os.path.join(src, f), dst)
meta_out = {
    'id': sid,
    'property': meta.get('property'),
    'title': meta.get('title'),
    'what': meta.get('what'),
    'needs_to_manifest': meta.get('needs'),
    'author_ran': meta.get('ran'),
    'confirmed': {'by': 'tools/verify_seeded.sh in a scratch worktree of /repo HEAD ' + subprocess.run(['git','-C','/repo','rev-parse','--short','HEAD'],capture_output=True,text=True).stdout.strip(), 'result': ver, 'all_confirmed': ok},
    'checks_run': {'how': 'tools/mutcheck.sh: git -C /repo apply patch.diff; ./check <id> --tier quick; git -C /repo checkout -- .', 'results': results},
    'caught_by': [c for c, r in results.items() if r['exit'] == 1],
}
json.dump(meta_out, open(os.path.join(dst, 'meta.json'), 'w'), indent=1)
print('kept' if ok else 'KEPT-BUT-NOT-CONFIRMED', sid, 'caught by', meta_out['caught_by'])
