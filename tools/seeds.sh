#!/bin/bash
# tools/seeds.sh [from] [to] : all quick checks under a range of VERIF_SEED values (default 2..21);
# prints "SEED <n> <check> exit=<code>" for anything that is not exit 0
from=${1:-2}; to=${2:-21}
for s in $(seq $from $to); do
  for p in C01 C02 C03 C04 C05 C06 C07 C08 C09 C10 C11 C13; do
    out=$(VERIF_SEED=$s ./check $p 2>&1); rc=$?
    if [ $rc -ne 0 ]; then echo "SEED $s $p exit=$rc"; echo "$out" | grep -v "^NOTE\|KNOWN-F" | tail -4; fi
  done
  echo "seed $s done"
done
