#!/bin/bash
# tools/mutcheck.sh <patch.diff> <Cxx> [<Cyy> ...] : apply a seeded change to /repo, run the quick
# checks named, undo the change. Prints one line per check: <id> exit=<code> <summary>.
set -u
patch="$1"; shift
cd /repo || exit 2
if [ -n "$(git status --porcelain --untracked-files=no)" ]; then echo "/repo is not clean"; exit 2; fi
if ! git apply --check "$patch" 2>/dev/null; then echo "patch does not apply: $patch"; exit 2; fi
git apply "$patch"
trap 'cd /repo && git checkout -- . && git clean -fdq src >/dev/null 2>&1' EXIT
export VERIF_OUT=/dev/shm/rws-mutcheck-out
for id in "$@"; do
  out=$(/verif/check "$id" --tier quick 2>&1); code=$?
  echo "$id exit=$code $(echo "$out" | grep -E "^$id:|HARNESS-ERROR" | head -2 | cut -c1-200)"
  echo "$out" | grep -E "violation class" | cut -c1-260 | head -6
done
