#!/bin/bash
# tools/thorough_all.sh [budget_s] : every check at the thorough tier, one after the other
b=${1:-120}
for p in C01 C02 C03 C04 C05 C06 C07 C08 C09 C10 C11 C13; do
  out=$(VERIF_BUDGET_S=$b ./check $p --tier thorough 2>&1); rc=$?
  echo "$p exit=$rc $(echo "$out" | grep -E "^$p:" | tail -1)"
  [ $rc -ne 0 ] && echo "$out" | grep -v "^NOTE\|KNOWN-F" | tail -5
done
exit 0
