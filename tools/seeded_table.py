#!/usr/bin/env python3
"""Prints the markdown table of /verif/seeded/*/meta.json (DESIGN.md appendix D)."""
import json, glob, os
rows = []
for f in sorted(glob.glob('/verif/seeded/*/meta.json')):
    m = json.load(open(f))
    res = m.get('checks_run', {}).get('results', {})
    caught = m.get('caught_by', [])
    cls = []
    for c in caught:
        cls += [f"{c}:{x}" for x in res[c]['classes'][:2]]
    miss = [c for c, r in res.items() if r['exit'] == 0]
    err = [c for c, r in res.items() if r['exit'] not in (0, 1)]
    rows.append((m['id'], (m.get('title') or '')[:90], (m.get('needs_to_manifest') or '')[:140].replace('\n', ' '), 'yes' if m['confirmed']['all_confirmed'] else 'NO', ', '.join(caught) or '-', '; '.join(cls)[:160], ', '.join(miss), ', '.join(err)))
print('| id | change | needs | confirmed | caught by | first classes | quiet checks | harness errors |')
print('|---|---|---|---|---|---|---|---|')
for r in rows:
    print('| ' + ' | '.join(x.replace('|', '/') for x in r) + ' |')
