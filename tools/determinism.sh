#!/bin/bash
# tools/determinism.sh [Cxx ...] : run each quick check twice, with 16 and with 5 worker processes, and
# compare the complete per-run records (campaign, index, event-log hash, ending, verdict classes).
set -u
/verif/tools/mirror.sh && cd /verif/sim && CARGO_NET_OFFLINE=true cargo build --release --offline >/dev/null 2>&1 || { echo "build failed"; exit 2; }
props="${@:-C01 C02 C03 C04 C05 C06 C07 C08 C09 C10 C11 C13}"
bad=0
for p in $props; do
  a=$(mktemp -d); b=$(mktemp -d)
  cp /verif/known_findings.json $a/; cp /verif/known_findings.json $b/
  VERIF_DIR=$a VERIF_SIGDUMP=$a ./target/release/rws-sim check $p --tier quick --workers 16 >/dev/null 2>&1
  VERIF_DIR=$b VERIF_SIGDUMP=$b ./target/release/rws-sim check $p --tier quick --workers 5 >/dev/null 2>&1
  na=$(cat $a/sig-*.txt | sort | md5sum | cut -c1-12); nb=$(cat $b/sig-*.txt | sort | md5sum | cut -c1-12)
  n=$(cat $a/sig-*.txt | wc -l)
  if [ "$na" = "$nb" ]; then echo "$p: $n runs identical with 16 and 5 workers ($na)"; else echo "$p: DIFFERENT ($na vs $nb)"; diff <(cat $a/sig-*.txt | sort) <(cat $b/sig-*.txt | sort) | head -5; bad=1; fi
  rm -rf $a $b
done
exit $bad
