# tools/redteam_prompts.py : writes one prompt per claimed property for a red-team round (round 7 text) to /tmp/r7/prompt-Cxx.txt
# and creates the scratch worktrees /tmp/mut7-Cxx of /repo HEAD. Filing afterwards: tools/verify_seeded.sh (VERIFY_WT=<worktree>), tools/keep_seeded.py.
import json, glob, os, subprocess
props = {json.loads(l)['id']: json.loads(l) for l in open('/verif/properties.jsonl')}
claimed = ['C01','C02','C03','C04','C05','C06','C07','C08','C09','C10','C11','C13']
for c in claimed:
    p = props[c]
    titles = []
    for m in sorted(glob.glob(f'/verif/seeded/{c}-*/meta.json')):
        j = json.load(open(m)); titles.append('- ' + (j.get('title') or '')[:200])
    wt = f'/tmp/mut7-{c}'
    if not os.path.isdir(wt):
        subprocess.run(['git','-C','/repo','worktree','add','-q','--detach',wt,'HEAD'],check=True)
        subprocess.run(['cp','/repo/Cargo.lock',wt+'/'])
    prompt = f"""You are a red-team engineer testing how good an automated checker is. You work ONLY inside the scratch git worktree {wt} (a checkout of the Rust project rws / rust-web-server, a dependency-light HTTP/1.1 static-file web server). Do not read or touch /repo or /verif or any other /tmp/mut* directory. There is no network; build with `CARGO_NET_OFFLINE=true cargo build --offline` and test with `CARGO_NET_OFFLINE=true cargo test --workspace --no-fail-fast --offline` (two tests, entry_point::command_line_args::tests::parse* and the cors static_file_cors_options_preflight_request_client_hints test, are flaky under plain cargo test because tests share the process environment; ignore those two).

The property under attack (id {c}): "{p['title']}"
Statement: {p['statement']}
Quantifier: {p['quantifier']['text']}
Code anchors: {json.dumps(p.get('anchors',{}).get('files',[]))}

Your assignment: produce TWO independent changes (m1 and m2) to the server's source code (src/), each of which
  1. genuinely breaks the property above for real users of the server (the shipped `rws` binary path: accept loop -> thread pool -> Server::process -> App / controllers; changes that only affect library functions nobody in that path calls do not count),
  2. still compiles and still passes the complete existing test suite (unedited),
  3. looks like something a maintainer could plausibly write (a feature, an optimisation, a refactoring, a 'hardening') - not an obvious sabotage,
  4. needs something SPECIFIC to manifest: a particular interleaving, a fault or crash at a particular point, a multi-step sequence of connections, an unusual input/file/configuration, or two cooperating sites that each look fine alone - NOT something ordinary use would expose at once,
  5. and - most important - that you judge MOST LIKELY TO ESCAPE an automated checker that exercises the real server code in a deterministic simulator with many seeded random inputs, document trees, configurations, thread interleavings, clock jumps, transport faults and disk faults, compares answers with a reference model, and has already been strengthened against all of the earlier changes listed below. Think about dimensions such a checker plausibly does not vary (but that real deployments do), triggers that need a rare coincidence of two or three things, state that accumulates slowly, values just outside typical generator ranges, platform facts, time of day / dates, file metadata (modes, owners, times, hard links, sizes, special files), long-lived connections, specific header combinations, and so on. Do not repeat the idea of an earlier change.

Earlier changes for this property (already detected - do something different):
{chr(10).join(titles)}

Deliverables: create directories {wt}/out/m1 and {wt}/out/m2, each containing
  - patch.diff : `git diff` of the change to src/ only (must apply with `git apply` to a clean checkout of HEAD),
  - a demonstration, EITHER demo.diff (a git diff that adds ONE new #[test] function to an existing tests.rs or a new test module, applying on top of patch.diff as well as on a clean checkout; the test must FAIL with the change and PASS without it) OR demo.sh (a bash script taking the checkout directory as $1, that builds and runs whatever is needed, exits non-zero with the change and 0 without it; it must not need the network and must clean up any server process it starts; choose a free port),
  - meta.json : {{"property": "{c}", "title": "<one line: what the change does and what triggers the failure>", "what": "<2-4 sentences: the change, and how the property is violated>", "needs": "<what exactly is needed for it to manifest>", "ran": "<the commands you ran and what you observed: suite passes, demo fails with / passes without>", "why_escapes": "<why you think a simulation-based checker misses it>"}}
Verify all of it yourself (suite passes with the change; demo fails with it and passes without it) before you finish, and leave the worktree's tracked files clean (git checkout -- . ; remove untracked test files) with only out/ left. Keep the build output (target/) to a minimum: run `cargo clean` at the end. Final answer: two lines, one per change, with its title."""
    open(f'/tmp/r7/prompt-{c}.txt','w').write(prompt)
print('ok')
