#!/usr/bin/env python3
"""tools/refresh_all.py : re-files every change under /verif/seeded/ in place (confirmation in a scratch worktree,
then the quick checks recorded in its meta.json against the current checks). About three hours."""
import json,glob,subprocess,os,sys
dirs=sorted(glob.glob('/verif/seeded/*/'))
for d in dirs:
    sid=os.path.basename(d.rstrip('/'))
    m=json.load(open(d+'meta.json'))
    checks=list(m.get('checks_run',{}).get('results',{}).keys()) or [m['property']]
    if m['property'] not in checks: checks.insert(0,m['property'])
    r=subprocess.run(['/verif/tools/keep_seeded.py',d.rstrip('/'),sid]+checks,capture_output=True,text=True)
    last=[l for l in r.stdout.split('\n') if l.startswith('kept') or l.startswith('KEPT')]
    print(sid, checks, last[-1] if last else 'NO RESULT '+r.stdout[-300:]+r.stderr[-300:], flush=True)
print('ALLDONE')
